"""C15  Correlator derived quantities equal their defining formulas where defined.

Decides only:
  D1 undefined exactly where a referenced slice is undefined: per variant branch, the set of timeslices tested against None equals
     the set of timeslices the formula references (both directions); plus the null-safety analysis of the C15 family
  D2 each finite-difference stencil is the stated derivative: moment conditions sum_k c_k k^m = m! delta_{m,d} up to the stated order
  D3 alignment: padding=[a, b] equals the loop range range(a, T - b)
  D4 m_eff: the formulas of log / logsym / arccosh, and the (t, t+1) index pair of the root variants
  D5 plateau: inclusive range, defined items only
"""
import ast
import re

import sympy as sp

from ..srcmodel import Unrecognised, unparse, call_name, kwarg, walk, statements, guards_of, const
from . import C14
from .C07 import find_def

LEVEL = 'proof'
EXPLANATION = ('per variant branch of deriv / second_deriv / m_eff: extraction of the loop, the None-guard set, the referenced timeslice set, the linear stencil coefficients (sympy) '
               'and the padding; set comparison guard = reference, moment conditions of the stencil, range/padding agreement')
LEVEL_TEXT = ('decides only: in each of the 13 variant branches the result is undefined at exactly the timeslices whose referenced inputs are undefined (guard set = reference set), every '
              'stencil satisfies the moment conditions of the derivative it is documented as (order of accuracy included), the padding restores the temporal alignment, the effective-mass '
              'formulas reference the documented pairs of timeslices, plateau averages the defined items of the inclusive range. Values of the root solver are not decided.')
TECHNIQUE = 'guard-set vs reference-set comparison, sympy coefficient extraction + moment conditions, loop-range/padding agreement, null-safety dataflow'

REF = re.compile(r'^self\.content\[t( [+-] \d+)?\]$')


def offset(txt):
    m = re.match(r'^self\.content\[t(?: ([+-]) (\d+))?\]$', txt)
    if not m:
        return None
    if m.group(1) is None:
        return 0
    return int(m.group(2)) * (1 if m.group(1) == '+' else -1)


def variant_branches(mod, f):
    """(variant label, body statements) of the `if variant == ...` chain"""
    out = []
    node = next((s for s in f.body if isinstance(s, ast.If) and 'variant' in unparse(s.test)), None)
    while node is not None:
        t = node.test
        if isinstance(t, ast.Compare) and unparse(t.left) == 'variant':
            if isinstance(t.ops[0], ast.Eq) and isinstance(t.comparators[0], ast.Constant):
                out.append((t.comparators[0].value, node.body, node))
            elif isinstance(t.ops[0], ast.In) and isinstance(t.comparators[0], (ast.List, ast.Tuple)):
                out.append(('/'.join(e.value for e in t.comparators[0].elts), node.body, node))
        if len(node.orelse) == 1 and isinstance(node.orelse[0], ast.If):
            node = node.orelse[0]
        else:
            node = None
    return out


def analyse_branch(mod, body):
    """returns dict(loop, guards(set of offsets tested for None), value_tests, refs(set of offsets in appended expr), expr node, padding)"""
    loop = next((s for s in body if isinstance(s, ast.For)), None)
    if loop is not None and unparse(loop.target) != 't':
        loop = zip_slices_view(mod, loop, body)
    if loop is None or unparse(loop.target) != 't':
        raise Unrecognised('no loop over t')
    top_if = next((s for s in loop.body if isinstance(s, ast.If)), None)
    if top_if is None:
        raise Unrecognised('loop body is not an if/else')
    guards = set()
    value_refs = set()
    # collect the whole if/elif chain: None-tests anywhere in the tests of branches that append None
    node = top_if
    expr = None
    while node is not None:
        appends_none = any(isinstance(x, ast.Expr) and isinstance(x.value, ast.Call) and x.value.args and isinstance(x.value.args[0], ast.Constant) and x.value.args[0].value is None for x in node.body)
        for c in ast.walk(node.test):
            if isinstance(c, ast.Compare) and len(c.ops) == 1 and isinstance(c.ops[0], ast.Is) and isinstance(c.comparators[0], ast.Constant) and c.comparators[0].value is None:
                o = offset(unparse(c.left))
                if o is None:
                    raise Unrecognised('None test on %s' % unparse(c.left))
                if appends_none:
                    guards.add(o)
        for c in ast.walk(node.test):
            if isinstance(c, ast.Subscript) and offset(unparse(c)) is not None:
                par = mod.parents.get(c)
                if not (isinstance(par, ast.Compare) and isinstance(par.ops[0], ast.Is)):
                    value_refs.add(offset(unparse(c)))
        if len(node.orelse) == 1 and isinstance(node.orelse[0], ast.If):
            node = node.orelse[0]
        else:
            last = node.orelse
            for x in last:
                if isinstance(x, ast.Expr) and isinstance(x.value, ast.Call) and isinstance(x.value.func, ast.Attribute) and x.value.func.attr == 'append':
                    expr = x.value.args[0]
            node = None
    if expr is None:
        raise Unrecognised('no final else-branch appending the formula')
    refs = {offset(unparse(c)) for c in ast.walk(expr) if isinstance(c, ast.Subscript) and offset(unparse(c)) is not None}
    # padding of the returned Corr
    pad = None
    for s in body:
        for c in walk(s):
            if isinstance(c, ast.Call) and call_name(c) == 'Corr' and kwarg(c, 'padding') is not None:
                p = kwarg(c, 'padding')
                if isinstance(p, ast.List) and len(p.elts) == 2:
                    pad = (const(p.elts[0]), const(p.elts[1]))
    return dict(loop=loop, guards=guards, value_refs=value_refs, refs=refs, expr=expr, pad=pad)


def zip_slices_view(mod, loop, body):
    """for u, v in zip(self.content[a:...], self.content[b:...]): B     is read as the index loop
           for t in range(p, p + n): B[u := self.content[t + a - p], v := self.content[t + b - p]]
    where n is the common length of the slices and p the front padding of the returned Corr (entry k of the result is timeslice
    k + p).  The stencil / guard / range checks then run on the index form."""
    import copy as _copy
    it = loop.iter
    if isinstance(loop.target, ast.Name) and isinstance(it, ast.Subscript) and unparse(it.value) == 'self.content' and isinstance(it.slice, ast.Slice):
        names, slices = [loop.target.id], [it.slice]
    elif isinstance(it, ast.Call) and call_name(it) == 'zip' and isinstance(loop.target, ast.Tuple) and len(loop.target.elts) == len(it.args) \
            and all(isinstance(x, ast.Name) for x in loop.target.elts) and all(isinstance(a, ast.Subscript) and unparse(a.value) == 'self.content' and isinstance(a.slice, ast.Slice) for a in it.args):
        names, slices = [x.id for x in loop.target.elts], [a.slice for a in it.args]
    else:
        return loop
    pad = None
    for s_ in body:
        for c in walk(s_):
            if isinstance(c, ast.Call) and call_name(c) == 'Corr' and kwarg(c, 'padding') is not None and isinstance(kwarg(c, 'padding'), ast.List) and len(kwarg(c, 'padding').elts) == 2:
                pad = const(kwarg(c, 'padding').elts[0])
    if pad is None:
        return loop
    starts, lens = [], []       # length of slice i = T - cut_i
    for sl in slices:
        if sl.step is not None:
            return loop
        a = 0 if sl.lower is None else const(sl.lower)
        b = 0 if sl.upper is None else const(sl.upper)
        if a is None or b is None or a < 0 or b > 0:
            return loop             # only [a:], [a:-b] with literal a >= 0, b >= 0
        starts.append(a)
        lens.append(a - b)          # T - a + b  ->  cut = a - b
    cut = max(lens)                 # zip stops with the shortest slice: n = T - cut
    sub = {nm: 'self.content[t%s]' % ('' if a - pad == 0 else (' + %d' % (a - pad) if a - pad > 0 else ' - %d' % (pad - a))) for nm, a in zip(names, starts)}
    new = _copy.deepcopy(loop)

    class R(ast.NodeTransformer):
        def visit_Name(self, n):
            if n.id in sub and isinstance(n.ctx, ast.Load):
                return ast.copy_location(ast.parse(sub[n.id], mode='eval').body, n)
            return n
    new.body = [R().visit(b_) for b_ in new.body]
    new.target = ast.copy_location(ast.Name(id='t', ctx=ast.Store()), loop.target)
    hi = 'self.T' if cut - pad == 0 else ('self.T - %d' % (cut - pad) if cut - pad > 0 else 'self.T + %d' % (pad - cut))
    new.iter = ast.copy_location(ast.parse('range(%s%s)' % ('%d, ' % pad if pad else '', hi), mode='eval').body, loop.iter)
    ast.fix_missing_locations(new)
    for n_ in ast.walk(new):
        for ch in ast.iter_child_nodes(n_):
            mod.parents.setdefault(ch, n_)
    return new


def loop_range(loop):
    """range(a, self.T - b) -> (a, b)"""
    it = loop.iter
    if not (isinstance(it, ast.Call) and call_name(it) == 'range'):
        raise Unrecognised('loop over %s' % unparse(it))
    args = it.args
    lo = 0 if len(args) == 1 else const(args[0])
    hi = args[-1]
    if unparse(hi) == 'self.T':
        b = 0
    elif isinstance(hi, ast.BinOp) and isinstance(hi.op, ast.Sub) and unparse(hi.left) == 'self.T' and const(hi.right) is not None:
        b = const(hi.right)
    else:
        raise Unrecognised('upper bound %s' % unparse(hi))
    return lo, b


def coefficients(mod, expr):
    """linear stencil: expr = sum_k c_k * C(t+k)  ->  {k: c_k}"""
    syms = {}

    def tr(e):
        if isinstance(e, ast.Subscript) and offset(unparse(e)) is not None:
            k = offset(unparse(e))
            syms.setdefault(k, sp.Symbol('C_%s' % str(k).replace('-', 'm')))
            return syms[k]
        if isinstance(e, ast.Constant) and isinstance(e.value, (int, float)) and not isinstance(e.value, bool):
            return sp.nsimplify(e.value, rational=True)
        if isinstance(e, ast.UnaryOp) and isinstance(e.op, ast.USub):
            return -tr(e.operand)
        if isinstance(e, ast.BinOp):
            a, b = tr(e.left), tr(e.right)
            return {ast.Add: lambda: a + b, ast.Sub: lambda: a - b, ast.Mult: lambda: a * b, ast.Div: lambda: a / b}[type(e.op)]()
        raise Unrecognised('stencil term %s' % unparse(e))
    ex = sp.expand(tr(expr))
    out = {}
    for k, s in syms.items():
        out[k] = ex.coeff(s)
    rest = sp.simplify(ex - sum(out[k] * syms[k] for k in syms))
    if rest != 0:
        raise Unrecognised('stencil is not linear: %s' % ex)
    return out


# documented derivative order d and order of accuracy p of each variant
STENCILS = {
    ('deriv', 'symmetric'): (1, 2), ('deriv', 'forward'): (1, 1), ('deriv', 'backward'): (1, 1), ('deriv', 'improved'): (1, 4),
    ('second_deriv', 'symmetric'): (2, 2), ('second_deriv', 'big_symmetric'): (2, 2), ('second_deriv', 'improved'): (2, 4),
}


def delegating_variant(ctx, mod, f, fname, label, body, node, key0, analysed):
    """a variant without a loop of its own that combines other variants of the same method, e.g. 0.5 * (self.deriv('forward') +
    self.deriv('backward')).  The result is undefined wherever one of the combined variants is undefined, i.e. wherever any timeslice of
    *their* stencils is undefined; the combined stencil is the linear combination of theirs.  A timeslice that is needed (guarded by a
    part) but has coefficient zero in the combination makes the result undefined where the documented formula is defined."""
    calls = [c for s_ in body for c in walk(s_) if isinstance(c, ast.Call) and isinstance(c.func, ast.Attribute) and c.func.attr == fname and unparse(c.func.value) == 'self'
             and c.args and isinstance(c.args[0], ast.Constant)]
    if not calls or any(c.args[0].value not in analysed for c in calls):
        return False
    # the combination as a linear form in the delegated variants
    syms = {c.args[0].value: sp.Symbol('V_' + c.args[0].value) for c in calls}
    expr_stmt = next((s_ for s_ in body if isinstance(s_, (ast.Assign, ast.Return)) and any(c in list(walk(s_)) for c in calls)), None)
    if expr_stmt is None:
        return False

    def tr(e):
        if isinstance(e, ast.Call) and e in calls:
            return syms[e.args[0].value]
        if isinstance(e, ast.Constant) and isinstance(e.value, (int, float)) and not isinstance(e.value, bool):
            return sp.nsimplify(e.value, rational=True)
        if isinstance(e, ast.UnaryOp) and isinstance(e.op, ast.USub):
            return -tr(e.operand)
        if isinstance(e, ast.BinOp) and isinstance(e.op, (ast.Add, ast.Sub, ast.Mult, ast.Div)):
            a, b = tr(e.left), tr(e.right)
            return {ast.Add: lambda: a + b, ast.Sub: lambda: a - b, ast.Mult: lambda: a * b, ast.Div: lambda: a / b}[type(e.op)]()
        raise Unrecognised('combination %s' % unparse(e))
    try:
        comb = sp.expand(tr(expr_stmt.value))
        coef = {}
        guards = set()
        for v, sym in syms.items():
            w = comb.coeff(sym)
            br = analysed[v]
            for k_, c_ in coefficients(mod, br['expr']).items():
                coef[k_] = coef.get(k_, 0) + w * c_
            guards |= set(br['guards'])
        if sp.simplify(comb - sum(comb.coeff(sym) * sym for sym in syms.values())) != 0:
            return False
    except (Unrecognised, KeyError):
        return False
    refs = {k_ for k_, c_ in coef.items() if sp.simplify(c_) != 0}
    extra = guards - refs
    ctx.check('C15-D1', key0 + '#guard=reference', not extra and refs <= guards, 'the combination of %s is undefined exactly where a timeslice of its own stencil %s is undefined' % (sorted(syms), sorted(refs)),
              'the %s variant is computed from the variants %s: it is undefined wherever one of timeslices t%s is undefined, but its stencil %s does not reference t%s - the result is lost at '
              'timeslices where the documented formula is defined' % (label, sorted(syms), sorted(guards), dict(sorted((k_, v_) for k_, v_ in coef.items() if sp.simplify(v_) != 0)), sorted(extra)), mod.loc(node))
    try:
        d, p = STENCILS[(fname, label)]
        bad = [m_ for m_ in range(0, d + p) if sp.simplify(sum(c_ * sp.Integer(k_) ** m_ for k_, c_ in coef.items()) - (sp.factorial(d) if m_ == d else 0)) != 0]
        ctx.check('C15-D2', key0 + '#stencil', not bad, 'combined stencil %s is the documented derivative' % dict(sorted(coef.items())), 'combined stencil %s violates the moment conditions %s' % (dict(sorted(coef.items())), bad), mod.loc(node))
    except KeyError:
        pass
    return True


def derivs(ctx, mod):
    n = 0
    for fname in ('deriv', 'second_deriv'):
        f = mod.func('Corr.' + fname)
        analysed = {}
        branches = list(variant_branches(mod, f))
        # variants with a loop of their own first: a variant that is computed from other variants is decided from their stencils
        branches.sort(key=lambda b_: 0 if any(isinstance(x, ast.For) for x in b_[1]) else 1)
        for label, body, node in branches:
            key0 = 'correlators.py:Corr.%s[%s]' % (fname, label)
            n += 1
            try:
                br = analyse_branch(mod, body)
            except Unrecognised as e:
                if not delegating_variant(ctx, mod, f, fname, label, body, node, key0, analysed):
                    ctx.unrec('C15-D1', key0, str(e), mod.loc(node))
                continue
            analysed[label] = br
            if label == 'log':
                # log(C) then a derivative of the log correlator times C: guard = {0} and value test C<=0, reference {0}
                ok = br['guards'] == {0} and br['refs'] == {0}
                ctx.check('C15-D1', key0 + '#guard=reference', ok, 'log is taken where the slice is defined (and positive)', 'guards %s vs references %s' % (sorted(br['guards']), sorted(br['refs'])), mod.loc(node))
                r = [s for s in body if isinstance(s, ast.Return)]
                want = {'deriv': "self * logcorr.deriv('symmetric')", 'second_deriv': "self * (logcorr.second_deriv('symmetric') + logcorr.deriv('symmetric') ** 2)"}[fname]
                ctx.check('C15-D2', key0 + '#formula', len(r) == 1 and unparse(r[0].value) == want, 'f * d(log f) resp. f * (d2 log f + (d log f)^2)', 'returns %s' % [unparse(x.value) for x in r], mod.loc(node))
                ex = br['expr']
                ctx.check('C15-D2', key0 + '#log', unparse(ex) == 'np.log(self.content[t])', 'log of the same timeslice', 'element %s' % unparse(ex))
                continue
            missing = br['refs'] - br['guards']
            extra = br['guards'] - br['refs']
            for k in sorted(missing):
                ctx.violated('C15-D1', key0 + '#unguarded[t%+d]' % k if k else key0 + '#unguarded[t]', 'the %s formula references timeslice t%s but never tests it for None: an undefined slice there raises instead of '
                             'giving an undefined result' % (label, '%+d' % k if k else ''), mod.loc(br['loop']))
            for k in sorted(extra):
                ctx.violated('C15-D1', key0 + '#over-guarded[t%+d]' % k if k else key0 + '#over-guarded[t]', 'timeslice t%s is tested for None but not referenced by the %s formula: the result is undefined too often' % (
                    '%+d' % k if k else '', label), mod.loc(br['loop']))
            if not missing and not extra:
                ctx.holds('C15-D1', key0 + '#guard=reference', 'None-tested timeslices %s = referenced timeslices' % sorted(br['guards']), mod.loc(br['loop']))
            # stencil
            try:
                cs = coefficients(mod, br['expr'])
                d, p = STENCILS[(fname, label)]
                bad = []
                for m in range(0, d + p):
                    mom = sum(c * sp.Integer(k) ** m for k, c in cs.items())
                    want = sp.factorial(d) if m == d else 0
                    if sp.simplify(mom - want) != 0:
                        bad.append((m, mom, want))
                ctx.check('C15-D2', key0 + '#stencil', not bad, 'coefficients %s satisfy sum c_k k^m = %d! delta(m,%d) for m < %d' % (dict(sorted(cs.items())), d, d, d + p),
                          'stencil %s is not a derivative of order %d accurate to O(a^%d): moments (m, found, required) %s' % (dict(sorted(cs.items())), d, p, bad), mod.loc(br['loop']))
            except (Unrecognised, KeyError) as e:
                ctx.unrec('C15-D2', key0 + '#stencil', str(e), mod.loc(br['loop']))
            # alignment
            try:
                a, b = loop_range(br['loop'])
                ok = br['pad'] == (a, b)
                ctx.check('C15-D3', key0 + '#padding', ok, 'loop range(%d, T-%d) and padding %s agree' % (a, b, list(br['pad'] or ())), 'loop covers range(%d, T-%d) but the result is padded with %s: timeslices are shifted' % (a, b, br['pad']), mod.loc(br['loop']))
                # the loop must cover every t for which all referenced slices exist
                lo_need = max(0, -min(br['refs'])) if br['refs'] else 0
                hi_need = max(0, max(br['refs'])) if br['refs'] else 0
                ctx.check('C15-D3', key0 + '#range', (a, b) == (lo_need, hi_need), 'the loop covers exactly the timeslices whose references stay inside [0, T)', 'loop range(%d, T-%d) but references need range(%d, T-%d)' % (a, b, lo_need, hi_need), mod.loc(br['loop']))
            except Unrecognised as e:
                ctx.unrec('C15-D3', key0 + '#padding', str(e))
            # all-undefined raises
            rs = [s for s in body if isinstance(s, ast.If) and 'all(' in unparse(s.test) and any(isinstance(x, ast.Raise) for x in s.body)]
            ctx.check('C15-D1', key0 + '#all-undefined', len(rs) == 1, 'a completely undefined result raises', 'no all-undefined check', mod.loc(node))
        # unknown variant raises
        last = [s for s in statements(f) if isinstance(s, ast.Raise) and 'Unknown variant' in unparse(s)]
        ctx.check('C15-D1', 'correlators.py:Corr.%s#unknown-variant' % fname, len(last) == 1, 'unknown variants raise', 'no raise for unknown variants')
    ctx.floor('variant branches of deriv / second_deriv', n, 9)


def m_eff(ctx, mod):
    f = mod.func('Corr.m_eff')
    n = 0
    for label, body, node in variant_branches(mod, f):
        key0 = 'correlators.py:Corr.m_eff[%s]' % label
        n += 1
        try:
            br = analyse_branch(mod, body)
        except Unrecognised as e:
            ctx.unrec('C15-D4', key0, str(e), mod.loc(node))
            continue
        ex = unparse(br['expr'])
        ret = [unparse(s.value) for s in body if isinstance(s, ast.Return)]
        refs = br['refs']
        missing = refs - br['guards']
        extra = br['guards'] - refs
        for k in sorted(missing):
            ctx.violated('C15-D1', key0 + '#unguarded[t%+d]' % k, 'referenced timeslice t%+d is not tested for None' % k, mod.loc(br['loop']))
        for k in sorted(extra):
            ctx.violated('C15-D1', key0 + '#over-guarded[t%+d]' % k, 'timeslice t%+d tested but not referenced' % k, mod.loc(br['loop']))
        if not missing and not extra:
            ctx.holds('C15-D1', key0 + '#guard=reference', 'None-tested timeslices %s = referenced timeslices' % sorted(refs), mod.loc(br['loop']))
        try:
            a, b = loop_range(br['loop'])
            ctx.check('C15-D3', key0 + '#padding', br['pad'] == (a, b), 'loop range(%d, T-%d) and padding agree' % (a, b), 'loop range(%d, T-%d) vs padding %s' % (a, b, br['pad']), mod.loc(br['loop']))
        except Unrecognised as e:
            ctx.unrec('C15-D3', key0 + '#padding', str(e))
        if label == 'log':
            ok = ex == 'self.content[t] / self.content[t + 1]' and ret == ['np.log(Corr(newcontent, padding=[0, 1]))']
            ctx.check('C15-D4', key0 + '#formula', ok, 'log(C(t)/C(t+1))', 'element %s, return %s' % (ex, ret), mod.loc(br['loop']))
        elif label == 'logsym':
            ok = ex == 'self.content[t - 1] / self.content[t + 1]' and ret == ['np.log(Corr(newcontent, padding=[1, 1])) / 2']
            ctx.check('C15-D4', key0 + '#formula', ok, 'log(C(t-1)/C(t+1))/2', 'element %s, return %s' % (ex, ret), mod.loc(br['loop']))
        elif label == 'arccosh':
            ok = ex == '(self.content[t + 1] + self.content[t - 1]) / (2 * self.content[t])' and ret == ['np.arccosh(Corr(newcontent, padding=[1, 1]))']
            ctx.check('C15-D4', key0 + '#formula', ok, 'arccosh((C(t+1)+C(t-1))/(2 C(t)))', 'element %s, return %s' % (ex, ret), mod.loc(br['loop']))
        else:
            ok = ex == 'np.abs(find_root(self.content[t][0] / self.content[t + 1][0], root_function, guess=guess))'
            ctx.check('C15-D4', key0 + '#ratio', ok, '|root| of f(m) = C(t)/C(t+1)', 'element %s' % ex, mod.loc(br['loop']))
            rf = mod.func('Corr.m_eff.root_function')
            r = [s for s in statements(rf) if isinstance(s, ast.Return)]
            ok = len(r) == 1 and unparse(r[0].value) == 'func(x * (t - self.T / 2)) / func(x * (t + 1 - self.T / 2)) - d'
            ctx.check('C15-D4', key0 + '#root-function', ok, 'cosh/sinh(m (t - T/2)) / cosh/sinh(m (t+1 - T/2)) - ratio: the same (t, t+1) pair as the data ratio', 'root function %s' % [unparse(x.value) for x in r])
            fd = [s for s in body if isinstance(s, ast.If) and 'variant in' in unparse(s.test)]
            ok = len(fd) == 1 and unparse(fd[0].body[0]) == 'func = anp.cosh' and unparse(fd[0].orelse[0]) == 'func = anp.sinh' and unparse(fd[0].test) == "variant in ['periodic', 'cosh']"
            ctx.check('C15-D4', key0 + '#function-choice', ok, 'periodic/cosh -> cosh, sinh -> sinh', 'function choice differs')
            # sinh has no solution at the two timeslices around T/2 of an even lattice: only those are filled with the predecessor.
            # The fill condition is evaluated for T = 4..11, t = 0..T-1 (an odd lattice has no such timeslice: nothing is filled).
            fills = [x for x in ast.walk(br['loop']) if isinstance(x, ast.If) and "variant == 'sinh'" in unparse(x.test) and any(isinstance(y, ast.Compare) and isinstance(y.ops[0], ast.In) for y in ast.walk(x.test))]
            if len(fills) == 1:
                mem = [y for y in ast.walk(fills[0].test) if isinstance(y, ast.Compare) and isinstance(y.ops[0], ast.In)][0]
                wrong = []
                try:
                    for T_ in range(4, 12):
                        class _S:
                            T = T_
                        for t_ in range(0, T_):
                            got = bool(eval(compile(ast.Expression(body=mem), '<fill>', 'eval'), {'__builtins__': {}}, {'self': _S, unparse(mem.left): t_}))
                            want_ = T_ % 2 == 0 and t_ in (T_ // 2, T_ // 2 - 1)
                            if got != want_:
                                wrong.append((T_, t_))
                    ctx.check('C15-D4', key0 + '#sinh-fill', not wrong, 'only t = T/2 - 1, T/2 of an even lattice are filled', 'the fill condition `%s` is wrong for (T, t) = %s: defined effective masses are overwritten with the predecessor' % (unparse(mem), wrong[:4]), mod.loc(fills[0]))
                except Exception as ex_:
                    ctx.unrec('C15-D4', key0 + '#sinh-fill', 'cannot evaluate %s: %r' % (unparse(mem), ex_))
        # sign / zero tests use the same pair as the ratio
        vr = br['value_refs']
        ctx.check('C15-D4', key0 + '#value-tests', vr <= refs, 'value tests (zero / sign) only look at referenced timeslices %s' % sorted(vr), 'value tests look at %s, formula references %s' % (sorted(vr), sorted(refs)), mod.loc(br['loop']))
    ctx.floor('variant branches of m_eff', n, 4)


def plateau(ctx, mod):
    f = mod.func('Corr.plateau')
    rv = find_def(f, 'returnvalue')
    ok = len(rv) == 1 and unparse(rv[0].value) == 'np.mean([item[0] for item in self.content[plateau_range[0]:plateau_range[1] + 1] if item is not None])'
    ctx.check('C15-D5', 'correlators.py:Corr.plateau#average', ok, 'mean of the defined items of the inclusive range', 'average is %s' % [unparse(s.value) for s in rv])
    r = [unparse(s.value) for s in statements(f) if isinstance(s, ast.Return) and mod.enclosing_func(s) is f]
    ctx.check('C15-D5', 'correlators.py:Corr.plateau#fit', 'self.fit(const_func, plateau_range)[0]' in r, 'fit of a constant over the same (inclusive) range', 'returns %s' % r)
    cf = mod.func('Corr.plateau.const_func')
    rr = [unparse(s.value) for s in statements(cf) if isinstance(s, ast.Return)]
    ctx.check('C15-D5', 'correlators.py:Corr.plateau.const_func', rr == ['a[0]'], 'constant model', 'const_func returns %s' % rr)
    g = [unparse(guards_of(mod, s, stop=f)[-1][0]) for s in statements(f) if isinstance(s, ast.Raise) and guards_of(mod, s, stop=f)]
    ok = any('all([self.content[t] is None for t in range(plateau_range[0], plateau_range[1] + 1)])' in x for x in g)
    ctx.check('C15-D5', 'correlators.py:Corr.plateau#all-undefined', ok, 'a completely undefined plateau range raises', 'guards %s' % g)


def run(ctx):
    ctx.rule('C15-D1', 'undefined exactly where a referenced slice is undefined (guard set = reference set; null safety)')
    ctx.rule('C15-D2', 'stencils satisfy the moment conditions of the stated derivative')
    ctx.rule('C15-D3', 'padding equals the loop range')
    ctx.rule('C15-D4', 'effective-mass formulas and index pairs')
    ctx.rule('C15-D5', 'plateau')
    ctx.not_decided += ['value returned by the root solver', '"no real solution" cases']
    mod = ctx.repo.mod('correlators')
    ctx.guarded('C15-D1', 'correlators.py@null-safety', C14.report_null, ctx, 'C15-D1', None, mod, lambda q: q in C14.C15_FUNCS, 'C15 family functions analysed for null safety', 5)
    ctx.guarded('C15-D1', 'correlators.py@derivs', derivs, ctx, mod)
    ctx.guarded('C15-D4', 'correlators.py@m_eff', m_eff, ctx, mod)
    ctx.guarded('C15-D5', 'correlators.py@plateau', plateau, ctx, mod)
    # the root variants of m_eff call find_root once per timeslice with closures of one code object: no state may survive a call
    from .. import hiddenstate
    rm_ = ctx.repo.mod('roots')
    ctx.guarded('C15-D4', 'roots@hidden-state', hiddenstate.check, ctx, 'C15-D4', rm_, [q for q, _ in rm_.functions() if '.' not in q], 'the effective mass of a timeslice')
    from .. import pat
    f = mod.func('Corr.fit')
    missing = pat.has_all(f, ['fitrange is None', 'fitrange = self.prange', 'fitrange = [0, self.T - 1]'])
    ctx.check('C15-D5', 'correlators.py:Corr.fit#default-range', not missing, 'default fit range = prange if set, else all timeslices [0, T-1] (inclusive)', 'missing %s' % missing, mod.loc(f))
    from . import C07
    C07.explicit_range_wins(ctx, 'C15-D5', mod, 'Corr.fit', 'fitrange')
    C07.explicit_range_wins(ctx, 'C15-D5', mod, 'Corr.plateau', 'plateau_range')
    pl = mod.func('Corr.plateau')
    missing = pat.has_all(pl, ['plateau_range = self.prange'])
    ctx.check('C15-D5', 'correlators.py:Corr.plateau#default-range', not missing, 'default plateau range = prange', 'missing %s' % missing, mod.loc(pl))


SELFTEST = [
    ('symmetric-from-forward-and-backward', 'pyerrors/correlators.py', '            newcontent = []\n            for t in range(1, self.T - 1):\n                if (self.content[t - 1] is None) or (self.content[t + 1] is None):\n                    newcontent.append(None)\n                else:\n                    newcontent.append(0.5 * (self.content[t + 1] - self.content[t - 1]))\n            if (all([x is None for x in newcontent])):\n                raise ValueError(\'Derivative is undefined at all timeslices\')\n            return Corr(newcontent, padding=[1, 1])\n        elif variant == "forward":', '            res = 0.5 * (self.deriv("forward") + self.deriv("backward"))\n            if (all([x is None for x in res.content])):\n                raise ValueError(\'Derivative is undefined at all timeslices\')\n            return res\n        elif variant == "forward":', 'C15-D1'),
    ('benign-zip-slices', 'pyerrors/correlators.py', '            for t in range(1, self.T - 1):\n                if (self.content[t - 1] is None) or (self.content[t + 1] is None):\n                    newcontent.append(None)\n                else:\n                    newcontent.append(0.5 * (self.content[t + 1] - self.content[t - 1]))\n            if (all([x is None for x in newcontent])):\n                raise ValueError(\'Derivative is undefined at all timeslices\')\n            return Corr(newcontent, padding=[1, 1])\n        elif variant == "forward":', '            for before, after in zip(self.content[:-2], self.content[2:]):\n                if before is None or after is None:\n                    newcontent.append(None)\n                else:\n                    newcontent.append(0.5 * (after - before))\n            if (all([x is None for x in newcontent])):\n                raise ValueError(\'Derivative is undefined at all timeslices\')\n            return Corr(newcontent, padding=[1, 1])\n        elif variant == "forward":', 'BENIGN'),
    ('zip-slices-wrong-offset', 'pyerrors/correlators.py', '            for t in range(1, self.T - 1):\n                if (self.content[t - 1] is None) or (self.content[t + 1] is None):\n                    newcontent.append(None)\n                else:\n                    newcontent.append(0.5 * (self.content[t + 1] - self.content[t - 1]))\n            if (all([x is None for x in newcontent])):\n                raise ValueError(\'Derivative is undefined at all timeslices\')\n            return Corr(newcontent, padding=[1, 1])\n        elif variant == "forward":', '            for before, after in zip(self.content[:-2], self.content[1:-1]):\n                if before is None or after is None:\n                    newcontent.append(None)\n                else:\n                    newcontent.append(0.5 * (after - before))\n            if (all([x is None for x in newcontent])):\n                raise ValueError(\'Derivative is undefined at all timeslices\')\n            return Corr(newcontent, padding=[1, 1])\n        elif variant == "forward":', 'C15-D1'),
    ('zip-slices-wrong-padding', 'pyerrors/correlators.py', '            for t in range(1, self.T - 1):\n                if (self.content[t - 1] is None) or (self.content[t + 1] is None):\n                    newcontent.append(None)\n                else:\n                    newcontent.append(0.5 * (self.content[t + 1] - self.content[t - 1]))\n            if (all([x is None for x in newcontent])):\n                raise ValueError(\'Derivative is undefined at all timeslices\')\n            return Corr(newcontent, padding=[1, 1])\n        elif variant == "forward":', '            for before, after in zip(self.content[:-2], self.content[2:]):\n                if before is None or after is None:\n                    newcontent.append(None)\n                else:\n                    newcontent.append(0.5 * (after - before))\n            if (all([x is None for x in newcontent])):\n                raise ValueError(\'Derivative is undefined at all timeslices\')\n            return Corr(newcontent, padding=[0, 2])\n        elif variant == "forward":', 'C15-D1'),
    ('sinh-fill-integer-division', 'pyerrors/correlators.py', "t in [self.T / 2, self.T / 2 - 1]", "t in [self.T // 2, self.T // 2 - 1]", 'C15-D4'),
    ('fix-reverted-second-deriv', 'pyerrors/correlators.py', "                if (self.content[t - 1] is None) or (self.content[t] is None) or (self.content[t + 1] is None):\n                    newcontent.append(None)\n                else:\n                    newcontent.append((self.content[t + 1] - 2", "                if (self.content[t - 1] is None) or (self.content[t + 1] is None):\n                    newcontent.append(None)\n                else:\n                    newcontent.append((self.content[t + 1] - 2", 'C15-D1'),
    ('over-guarded', 'pyerrors/correlators.py', "                if (self.content[t - 1] is None) or (self.content[t + 1] is None):\n                    newcontent.append(None)\n                else:\n                    newcontent.append(0.5 * (", "                if (self.content[t - 1] is None) or (self.content[t] is None) or (self.content[t + 1] is None):\n                    newcontent.append(None)\n                else:\n                    newcontent.append(0.5 * (", 'C15-D1'),
    ('stencil-8-7', 'pyerrors/correlators.py', "(1 / 12) * (self.content[t - 2] - 8 * self.content[t - 1] + 8 * self.content[t + 1] - self.content[t + 2])", "(1 / 12) * (self.content[t - 2] - 7 * self.content[t - 1] + 7 * self.content[t + 1] - self.content[t + 2])", 'C15-D2'),
    ('stencil-12-10', 'pyerrors/correlators.py', "(1 / 12) * (-self.content[t + 2] + 16 * self.content[t + 1] - 30 * self.content[t] + 16 * self.content[t - 1] - self.content[t - 2])", "(1 / 10) * (-self.content[t + 2] + 16 * self.content[t + 1] - 30 * self.content[t] + 16 * self.content[t - 1] - self.content[t - 2])", 'C15-D2'),
    ('symmetric-half', 'pyerrors/correlators.py', "newcontent.append(0.5 * (self.content[t + 1] - self.content[t - 1]))", "newcontent.append((self.content[t + 1] - self.content[t - 1]))", 'C15-D2'),
    ('big-symmetric-divisor', 'pyerrors/correlators.py', "- 2 * self.content[t] + self.content[t - 2]) / 4)", "- 2 * self.content[t] + self.content[t - 2]) / 2)", 'C15-D2'),
    ('forward-sign', 'pyerrors/correlators.py', "newcontent.append(self.content[t + 1] - self.content[t])", "newcontent.append(self.content[t] - self.content[t + 1])", 'C15-D2'),
    ('padding-shift', 'pyerrors/correlators.py', "                raise ValueError(\"Derivative is undefined at all timeslices\")\n            return Corr(newcontent, padding=[1, 0])", "                raise ValueError(\"Derivative is undefined at all timeslices\")\n            return Corr(newcontent, padding=[0, 1])", 'C15-D3'),
    ('improved-range', 'pyerrors/correlators.py', "            for t in range(2, self.T - 2):\n                if (self.content[t - 2] is None) or (self.content[t - 1] is None) or (self.content[t + 1] is None) or (self.content[t + 2] is None):", "            for t in range(1, self.T - 3):\n                if (self.content[t - 2] is None) or (self.content[t - 1] is None) or (self.content[t + 1] is None) or (self.content[t + 2] is None):", 'C15-D3'),
    ('meff-log-index', 'pyerrors/correlators.py', "                    newcontent.append(self.content[t] / self.content[t + 1])\n            if (all([x is None for x in newcontent])):\n                raise ValueError('m_eff is undefined at all timeslices')\n\n            return np.log(Corr(newcontent, padding=[0, 1]))", "                    newcontent.append(self.content[t + 1] / self.content[t])\n            if (all([x is None for x in newcontent])):\n                raise ValueError('m_eff is undefined at all timeslices')\n\n            return np.log(Corr(newcontent, padding=[0, 1]))", 'C15-D4'),
    ('meff-logsym-half', 'pyerrors/correlators.py', "return np.log(Corr(newcontent, padding=[1, 1])) / 2", "return np.log(Corr(newcontent, padding=[1, 1]))", 'C15-D4'),
    ('meff-root-pair', 'pyerrors/correlators.py', "return func(x * (t - self.T / 2)) / func(x * (t + 1 - self.T / 2)) - d", "return func(x * (t - 1 - self.T / 2)) / func(x * (t - self.T / 2)) - d", 'C15-D4'),
    ('meff-arccosh', 'pyerrors/correlators.py', "newcontent.append((self.content[t + 1] + self.content[t - 1]) / (2 * self.content[t]))", "newcontent.append((self.content[t + 1] + self.content[t - 1]) / self.content[t])", 'C15-D4'),
    ('meff-unguarded', 'pyerrors/correlators.py', "                if (self.content[t] is None) or (self.content[t + 1] is None) or (self.content[t - 1] is None) or (self.content[t][0].value == 0):", "                if (self.content[t] is None) or (self.content[t + 1] is None) or (self.content[t][0].value == 0):", 'C15-D1'),
    ('plateau-exclusive', 'pyerrors/correlators.py', "for item in self.content[plateau_range[0]:plateau_range[1] + 1] if item is not None])", "for item in self.content[plateau_range[0]:plateau_range[1]] if item is not None])", 'C15-D5'),
    ('fit-default-range', 'pyerrors/correlators.py', "                fitrange = [0, self.T - 1]", "                fitrange = [0, self.T - 2]", 'C15-D5'),
    ('benign-stencil-rewrite', 'pyerrors/correlators.py', "newcontent.append(0.5 * (self.content[t + 1] - self.content[t - 1]))", "newcontent.append((self.content[t + 1] - self.content[t - 1]) / 2)", 'BENIGN'),
]
