"""C16  GEVP and matrix pencil.

Decides only:
  D0 null safety of GEVP / Eigenvalue / prune / _sort_vectors / _GEVP_solver
  D1 both solver branches return vectors as rows ordered by descending eigenvalue (orientation/order abstract interpretation:
     exactly one order reversal along the vector axis, no reversal of components), lower=True, Cholesky algebra
  D2 every matrix fetched in GEVP goes through the symmetrised correlator
  D3 alignment of the per-timeslice vector list (t0+1 leading None, loop from t0+1, one entry per iteration), state-major regrouping
  D4 request validation (ts <= t0, ts required), state selected after sorting
  D5 Eigenvalue / prune projection formulas
  D6 matrix pencil: Hankel construction, shifted sub-matrices, rank-k pseudo-inverse formula, log|eig|
"""
import ast

from ..srcmodel import dezip_view, Unrecognised, unparse, call_name, kwarg, walk, statements, guards_of, const
from ..matx import MatX, show
from . import C14
from .C07 import find_def

LEVEL = 'other'
EXPLANATION = ('null-safety dataflow of the GEVP family; abstract interpretation of (vector axis, eigenvalue order) through transposes, flips and slices in both solver branches; '
               'dataflow rule that matrices are read through the symmetrised correlator; alignment and per-path append counting of the vector list; matrix normal forms of the projections and of the pencil')
LEVEL_TEXT = ('decides only: no unguarded dereference of an undefined timeslice in the GEVP family; both solver branches produce rows-as-vectors in descending eigenvalue order with exactly one '
              'reversal and no component reversal; Cholesky transformation L^-1 G L^-T and back-transformation L^-T w; symmetrise-first; list alignment with t; validation of ts/t0; projection '
              'formulas of Eigenvalue and prune; the matrix-pencil construction. The eigen-equation and recovered spectra are numerical and not decided.')
TECHNIQUE = 'null-safety dataflow, orientation/order abstract interpretation, matrix normal form comparison, per-path effect counting'

S = lambda n: ('sym', n)


def orient(mod, e, env):
    """abstract value (axis, order, comp_reversed): axis in {'cols','rows'} = where the eigenvectors lie, order in {'asc','desc'}"""
    if isinstance(e, ast.Name):
        if e.id in env:
            return env[e.id]
        raise Unrecognised('name %s' % e.id)
    if isinstance(e, ast.Attribute) and e.attr == 'T':
        a, o, c = orient(mod, e.value, env)
        return ('rows' if a == 'cols' else 'cols', o, c)
    if isinstance(e, ast.Subscript):
        b = e.value
        sl = e.slice
        # eigh(...)[1] : eigenvectors as columns, ascending eigenvalues
        if isinstance(b, ast.Call) and const(sl) == 1:
            d = mod.dotted(b.func) or ''
            if d in ('scipy.linalg.eigh', 'numpy.linalg.eigh'):
                return ('cols', 'asc', False)
        a, o, c = orient(mod, b, env)
        dims = sl.elts if isinstance(sl, ast.Tuple) else [sl]
        for ax, d in enumerate(dims):
            if isinstance(d, ast.Slice):
                if d.step is not None:
                    if const(d.step) != -1 or d.lower is not None or d.upper is not None:
                        raise Unrecognised('slice %s' % unparse(e))
                    along = 'rows' if ax == 0 else 'cols'
                    if along == a:
                        o = 'desc' if o == 'asc' else 'asc'
                    else:
                        c = not c
                elif d.lower is not None or d.upper is not None:
                    raise Unrecognised('partial slice %s' % unparse(e))
            else:
                raise Unrecognised('index %s' % unparse(e))
        return (a, o, c)
    if isinstance(e, ast.Call):
        d = mod.dotted(e.func) or ''
        if d == 'numpy.flip' and len(e.args) == 1 and kwarg(e, 'axis') is not None:
            a, o, c = orient(mod, e.args[0], env)
            ax = const(kwarg(e, 'axis'))
            along = 'rows' if ax == 0 else 'cols'
            if along == a:
                o = 'desc' if o == 'asc' else 'asc'
            else:
                c = not c
            return (a, o, c)
        if d in ('numpy.fliplr', 'numpy.flipud') and len(e.args) == 1:
            a, o, c = orient(mod, e.args[0], env)
            along = 'cols' if d.endswith('lr') else 'rows'
            if along == a:
                o = 'desc' if o == 'asc' else 'asc'
            else:
                c = not c
            return (a, o, c)
        if call_name(e) == 'eigv' and len(e.args) >= 1:
            return ('cols', 'asc', False)
        if call_name(e) == 'matmul' and len(e.args) == 2:
            return orient(mod, e.args[1], env)       # left multiplication keeps columns as vectors
        if d in ('numpy.transpose',) and len(e.args) == 1:
            a, o, c = orient(mod, e.args[0], env)
            return ('rows' if a == 'cols' else 'cols', o, c)
    raise Unrecognised('cannot track orientation through %s' % unparse(e))


def d1_solver(ctx, mod):
    rule = 'C16-D1'
    f = mod.func('_GEVP_solver')
    rets = [s for s in statements(f) if isinstance(s, ast.Return) and mod.enclosing_func(s) is f]
    # eigh branch
    eb = [r for r in rets if any(pol and "method == 'eigh'" in unparse(t) for t, pol in guards_of(mod, r, stop=f))]
    key = '_GEVP_solver#eigh-branch'
    if len(eb) != 1:
        ctx.unrec(rule, 'correlators.py:' + key, 'eigh branch return not found')
    else:
        try:
            o = orient(mod, eb[0].value, {})
            ctx.check(rule, 'correlators.py:' + key + '-order', o == ('rows', 'desc', False), 'vectors are rows, largest eigenvalue first, components untouched',
                      'eigh branch returns vectors along %s in %s order%s' % (o[0], o[1], ' with reversed components' if o[2] else ''), mod.loc(eb[0]))
        except Unrecognised as e:
            ctx.unrec(rule, 'correlators.py:' + key + '-order', str(e), mod.loc(eb[0]))
        c = [x for x in walk(eb[0]) if isinstance(x, ast.Call) and (mod.dotted(x.func) or '') == 'scipy.linalg.eigh']
        ok = len(c) == 1 and [unparse(a) for a in c[0].args] == ['Gt', 'G0'] and kwarg(c[0], 'lower') is not None and unparse(kwarg(c[0], 'lower')) == 'True'
        ctx.check(rule, 'correlators.py:' + key + '-problem', ok, 'generalised problem eigh(Gt, G0, lower=True)', 'eigh call %s' % [unparse(x) for x in c], mod.loc(eb[0]))
    # cholesky branch
    # temporaries introduced by the normalisation pre-pass (or by a refactoring) between ev and output are substituted first
    import copy as _copy
    single = {}
    for s_ in statements(f):
        if isinstance(s_, ast.Assign) and len(s_.targets) == 1 and isinstance(s_.targets[0], ast.Name) and s_.targets[0].id not in ('ev', 'output', 'new_matrix', 'chol', 'chol_inv'):
            single.setdefault(s_.targets[0].id, []).append(s_)
    single = {k_: v_[0] for k_, v_ in single.items() if len(v_) == 1}
    for s_ in statements(f):
        if isinstance(s_, ast.Assign) and unparse(s_.targets[0]) == 'output':
            for _ in range(3):
                for n_ in list(ast.walk(s_.value)):
                    if isinstance(n_, ast.Name) and n_.id in single and single[n_.id] is not s_ and single[n_.id].lineno <= s_.lineno:
                        for par_ in ast.walk(s_):
                            for fld_, v_ in ast.iter_fields(par_):
                                if v_ is n_:
                                    setattr(par_, fld_, _copy.deepcopy(single[n_.id].value))
    out = [s for s in statements(f) if isinstance(s, ast.Assign) and unparse(s.targets[0]) == 'output' and 'ev' in unparse(s.value)]
    # later re-assignments of output from itself (or through a temporary) compose with the first one
    more = [s for s in statements(f) if isinstance(s, ast.Assign) and isinstance(s.targets[0], ast.Name) and out and s.lineno >= out[0].lineno and s not in out
            and any(isinstance(n, ast.Name) and n.id in ('output',) + tuple(x.targets[0].id for x in out if isinstance(x.targets[0], ast.Name)) for n in ast.walk(s.value))
            and mod.parents.get(s) is mod.parents.get(out[0])]
    key = '_GEVP_solver#cholesky-branch'
    if len(out) != 1:
        ctx.unrec(rule, 'correlators.py:' + key, 'assignment of output from ev not found')
    else:
        evs = [s for s in statements(f) if isinstance(s, ast.Assign) and unparse(s.targets[0]) == 'ev']
        env = {}
        try:
            for s in evs:
                env['ev'] = orient(mod, s.value, env)
            o = orient(mod, out[0].value, env)
            for s in more:
                env[out[0].targets[0].id] = o
                env['output'] = o
                o = orient(mod, s.value, env)
            ctx.check(rule, 'correlators.py:' + key + '-order', o == ('rows', 'desc', False), 'vectors are rows, largest eigenvalue first, components untouched',
                      'cholesky branch returns vectors along %s in %s order%s' % (o[0], o[1], ' with reversed components' if o[2] else ''), mod.loc(out[0]))
        except Unrecognised as e:
            ctx.unrec(rule, 'correlators.py:' + key + '-order', str(e), mod.loc(out[0]))
        nm = [s for s in statements(f) if isinstance(s, ast.Assign) and unparse(s.targets[0]) == 'new_matrix']
        ok = len(nm) == 1 and unparse(nm[0].value) == 'matmul(chol_inv, Gt, chol_inv.T)'
        ctx.check(rule, 'correlators.py:' + key + '-transform', ok, 'standard problem L^-1 G(t) L^-T', 'new_matrix = %s' % [unparse(s.value) for s in nm])
        back = [s for s in evs if 'matmul' in unparse(s.value)]
        ok = len(back) == 1 and unparse(back[0].value) == 'matmul(chol_inv.T, ev)'
        ctx.check(rule, 'correlators.py:' + key + '-back-transform', ok, 'v = L^-T w', 'back transformation %s' % [unparse(s.value) for s in back])
        ci = [s for s in statements(f) if isinstance(s, ast.Assign) and unparse(s.targets[0]) == 'chol_inv']
        ch = [s for s in statements(f) if isinstance(s, ast.Assign) and unparse(s.targets[0]) == 'chol']
        ok = len(ci) == 1 and unparse(ci[0].value) == 'inv(chol)' and len(ch) == 1 and unparse(ch[0].value) == 'cholesky(G0)'
        ctx.check(rule, 'correlators.py:' + key + '-factor', ok, 'L = cholesky(G(t0)), L^-1 = inv(L)', 'chol=%s chol_inv=%s' % ([unparse(s.value) for s in ch], [unparse(s.value) for s in ci]))
        # local eigv = eigh(x)[1]; Obs version = linalg.eigv
        ev_def = mod.func('_GEVP_solver.eigv')
        r = [unparse(s.value) for s in statements(ev_def) if isinstance(s, ast.Return)]
        ctx.check(rule, 'correlators.py:_GEVP_solver.eigv', r == ['np.linalg.eigh(x)[1]'], 'eigenvectors of the symmetric standard problem (ascending)', 'eigv returns %s' % r)
        asg = {unparse(s.targets[0]): unparse(s.value) for s in statements(f) if isinstance(s, ast.Assign) and isinstance(s.targets[0], ast.Name) and unparse(s.value).startswith(('linalg.', 'np.linalg.'))}
        ok = asg.get('cholesky') in ('linalg.cholesky', 'np.linalg.cholesky') and asg.get('inv') in ('linalg.inv', 'np.linalg.inv')
        ctx.check(rule, 'correlators.py:' + key + '-functions', ok, 'cholesky / inv bound to the matching implementations', 'bindings %s' % asg)
    # failure of the numerical branch yields undefined vectors, not wrong ones
    tr = [s for s in statements(f) if isinstance(s, ast.Try)]
    ok = len(tr) == 1 and any('output[s] = None' in unparse(h) or 'return [None] * N' in unparse(h) or 'return N * [None]' in unparse(h) or 'output = [None] * N' in unparse(h) for h in tr[0].handlers)
    ctx.check(rule, 'correlators.py:_GEVP_solver#failure', ok, 'a failing decomposition yields None for every state', 'exception handler differs')


def d2_symmetrised(ctx, mod):
    rule = 'C16-D2'
    f = mod.func('Corr.GEVP')
    sc = [s for s in statements(f) if isinstance(s, ast.Assign) and unparse(s.targets[0]) == 'symmetric_corr']
    vals = sorted(unparse(s.value) for s in sc)
    g = [unparse(guards_of(mod, s, stop=f)[-1][0]) for s in sc if guards_of(mod, s, stop=f)]
    ctx.check(rule, 'correlators.py:Corr.GEVP#symmetric_corr', vals == ['self', 'self.matrix_symmetric()'] and g == ['self.is_matrix_symmetric()'] * 2,
              'symmetric_corr = self if already symmetric else the symmetrised copy', 'symmetric_corr from %s under %s' % (vals, g))
    bad = []
    n = 0
    for q, nd in mod.functions():
        if q not in ('Corr.GEVP', 'Corr.GEVP._get_mat_at_t'):
            continue
        for x in walk(nd):
            if isinstance(x, ast.Subscript) and not isinstance(x.slice, ast.Slice):
                b = x.value
                is_self = (isinstance(b, ast.Name) and b.id == 'self') or (isinstance(b, ast.Attribute) and unparse(b) == 'self.content')
                if is_self:
                    n += 1
                    par = mod.parents.get(x)
                    if not (isinstance(par, ast.Compare) and isinstance(par.ops[0], (ast.Is, ast.IsNot))):
                        bad.append(x)
    ctx.check(rule, 'correlators.py:Corr.GEVP#reads-through-symmetrised', not bad, 'the unsymmetrised correlator is only tested for None (%d sites), matrices come from symmetric_corr' % n,
              'matrix read from the unsymmetrised correlator: %s' % [unparse(b) for b in bad], mod.loc(bad[0]) if bad else '')
    # the symmetry test itself: every pair i < j of every defined timeslice is compared
    ims = mod.func('Corr.is_matrix_symmetric')
    loops = [s_ for s_ in statements(ims) if isinstance(s_, ast.For)]
    its = [unparse(l.iter) for l in loops]
    ok = its == ['range(self.T)', 'range(self.N)', 'range(i + 1, self.N)']
    brk = [x for x in walk(ims) if isinstance(x, ast.Break)]
    rets = [unparse(r.value) for r in statements(ims) if isinstance(r, ast.Return)]
    ifs = [s_ for s_ in statements(ims) if isinstance(s_, ast.If)]
    skip_ok = all(all(isinstance(b, (ast.Continue, ast.Return, ast.Raise)) for b in i_.body) for i_ in ifs)
    hashcmp = any('hash(self[t][i, j]) != hash(self[t][j, i])' in unparse(i_.test) and unparse(i_.body[0]) == 'return False' for i_ in ifs)
    ctx.check(rule, 'correlators.py:Corr.is_matrix_symmetric#all-pairs', ok and not brk and skip_ok and hashcmp and rets == ['False', 'True'],
              'all pairs (i, j > i) of every defined timeslice are compared; shortcuts skip a single pair only',
              'pair loops %s, break statements %d, returns %s: some pairs are never compared' % (its, len(brk), rets), mod.loc(ims))
    gm = mod.func('Corr.GEVP._get_mat_at_t')
    r = sorted(unparse(s.value) for s in statements(gm) if isinstance(s, ast.Return))
    ctx.check(rule, 'correlators.py:Corr.GEVP._get_mat_at_t', r == ['np.vectorize(lambda x: x.value)(symmetric_corr[t])', 'symmetric_corr[t]'], 'matrix at t from the symmetrised correlator (values or Obs)', 'returns %s' % r)


def d3_alignment(ctx, mod):
    rule = 'C16-D3'
    f = mod.func('Corr.GEVP')
    av = [s for s in statements(f) if isinstance(s, ast.Assign) and unparse(s.targets[0]) == 'all_vecs' and isinstance(s.value, ast.BinOp)]
    loops = [s for s in statements(f) if isinstance(s, ast.For) and any('all_vecs.append' in unparse(x) for x in walk(s))]
    key = 'correlators.py:Corr.GEVP#alignment'
    if len(av) != 1 or len(loops) != 1:
        ctx.unrec(rule, key, 'all_vecs initialisation / loop not found')
    else:
        init = unparse(av[0].value)
        lp = loops[0]
        ok = init == '[None] * (t0 + 1)' and unparse(lp.iter) == 'range(t0 + 1, self.T)'
        ctx.check(rule, key, ok, 't0+1 leading None entries and a loop from t0+1: entry t belongs to timeslice t', 'initialised %s, loop %s' % (init, unparse(lp.iter)), mod.loc(lp))
        cs = C14.append_counts(lp.body, 'all_vecs')
        ctx.check(rule, key + '-one-per-t', cs == {1}, 'one entry per timeslice on every path (also when the solver fails)', 'appends per iteration: %s' % sorted(cs), mod.loc(lp))
        gt = [s for s in walk(lp) if isinstance(s, ast.Assign) and unparse(s.targets[0]) == 'Gt']
        ctx.check(rule, key + '-same-t', len(gt) == 1 and unparse(gt[0].value) == '_get_mat_at_t(%s)' % unparse(lp.target), 'the matrix of the loop timeslice is solved', 'Gt = %s' % [unparse(s.value) for s in gt])
        sv = [c for c in walk(lp) if isinstance(c, ast.Call) and call_name(c) == '_GEVP_solver']
        ok = len(sv) == 1 and [unparse(a) for a in sv[0].args] == ['Gt', 'G0'] and unparse(kwarg(sv[0], 'method')) == 'method' and unparse(kwarg(sv[0], 'chol_inv')) == 'chol_inv'
        ctx.check(rule, key + '-solver-args', ok, 'solver called with (G(t), G(t0)), the chosen method and the inverse Cholesky factor of G(t0)', 'solver call %s' % [unparse(c) for c in sv])
    g0 = find_def(f, 'G0')
    ctx.check(rule, 'correlators.py:Corr.GEVP#G0', len(g0) == 1 and unparse(g0[0].value) == '_get_mat_at_t(t0)', 'G0 = G(t0)', 'G0 = %s' % [unparse(s.value) for s in g0])
    rv = [s for s in statements(f) if isinstance(s, ast.Assign) and unparse(s.targets[0]) == 'reordered_vecs' and isinstance(s.value, ast.ListComp)]
    ok = len(rv) == 1 and unparse(rv[0].value) == '[[v[s] if v is not None else None for v in all_vecs] for s in range(self.N)]'
    ctx.check(rule, 'correlators.py:Corr.GEVP#state-major', ok, 'result[state][t] = vector of that state at t (None where undefined)', 'regrouping %s' % [unparse(s.value) for s in rv])
    # single-time solve
    sg = [s for s in statements(f) if isinstance(s, ast.Assign) and unparse(s.targets[0]) == 'Gt' and unparse(s.value) == '_get_mat_at_t(ts)']
    ctx.check(rule, 'correlators.py:Corr.GEVP#sort-None', len(sg) == 1, 'sort=None solves at ts', 'single-time solve not at ts')


def d4_validation(ctx, mod):
    rule = 'C16-D4'
    f = mod.func('Corr.GEVP')
    rs = []
    for s in statements(f):
        if isinstance(s, ast.Raise) and mod.enclosing_func(s) is f:
            rs.append(' && '.join(('' if pol else 'NOT ') + unparse(t) for t, pol in guards_of(mod, s, stop=f)))
    ctx.check(rule, 'correlators.py:Corr.GEVP#ts<=t0', any('ts <= t0' in x for x in rs), 'ts <= t0 is rejected', 'guards %s' % rs)
    ctx.check(rule, 'correlators.py:Corr.GEVP#ts-required', sum('ts is None' in x for x in rs) >= 2, 'ts required for sort=None and Eigenvector sorting', 'guards %s' % rs)
    ctx.check(rule, 'correlators.py:Corr.GEVP#undefined-t0-ts', any('self.content[t0] is None or self.content[ts] is None' in x for x in rs), 'undefined t0/ts rejected for sort=None', 'guards %s' % rs)
    ctx.check(rule, 'correlators.py:Corr.GEVP#N=1', any('self.N == 1' in x for x in rs), 'single correlators rejected', 'guards %s' % rs)
    ctx.check(rule, 'correlators.py:Corr.GEVP#unknown-sort', any(x.count('NOT') >= 2 for x in rs), 'unknown sort values rejected', 'guards %s' % rs)
    # state selection after sorting
    rets = [s for s in statements(f) if isinstance(s, ast.Return) and mod.enclosing_func(s) is f]
    st = [r for r in rets if 'state' in unparse(r.value)]
    srt = [s for s in statements(f) if isinstance(s, ast.Assign) and isinstance(s.value, ast.Call) and call_name(s.value) == '_sort_vectors' and unparse(s.targets[0]) == 'all_vecs']
    ok = len(st) == 1 and unparse(st[0].value) in ("reordered_vecs[kwargs.get('state')]", "reordered_vecs[kwargs['state']]") and len(srt) == 1 and srt[0].lineno < st[0].lineno and unparse(srt[0].value) == '_sort_vectors(all_vecs, ts)'
    ctx.check(rule, 'correlators.py:Corr.GEVP#state-after-sorting', ok, 'the state is picked from the sorted, regrouped list', 'state selection %s / sorting %s' % ([unparse(r.value) for r in st], [unparse(s.value) for s in srt]))
    # _sort_vectors returns original objects permuted, reference slot untouched
    sv = dezip_view(mod, mod.func('_sort_vectors'))[0]
    apps = [unparse(c.args[0]) for c in walk(sv) if isinstance(c, ast.Call) and isinstance(c.func, ast.Attribute) and c.func.attr == 'append' and unparse(c.func.value) == 'sorted_vec_set']
    ok = sorted(a_ for a_ in apps if not a_.startswith('[')) == ['None', 'vec_set_in[t]'] and sum(1 for a_ in apps if a_.startswith('[vec_set_in[t][')) == 1
    ctx.check(rule, 'correlators.py:_sort_vectors#outputs', ok, 'each timeslice yields None, a permutation of its own vectors, or (at ts) its vectors unchanged', 'appends %s' % apps)
    # which timeslices are passed through unsorted: exactly t == ts
    pas = [c for c in walk(sv) if isinstance(c, ast.Call) and isinstance(c.func, ast.Attribute) and c.func.attr == 'append' and unparse(c.func.value) == 'sorted_vec_set' and unparse(c.args[0]) == 'vec_set_in[t]']
    if len(pas) == 1:
        def evc(e, t_, ts_):
            if isinstance(e, ast.UnaryOp) and isinstance(e.op, ast.Not):
                v = evc(e.operand, t_, ts_)
                return None if v is None else not v
            if isinstance(e, ast.Compare) and len(e.ops) == 1 and {unparse(e.left), unparse(e.comparators[0])} == {'t', 'ts'}:
                a, b = (t_, ts_) if unparse(e.left) == 't' else (ts_, t_)
                return {ast.Eq: a == b, ast.NotEq: a != b, ast.Lt: a < b, ast.LtE: a <= b, ast.Gt: a > b, ast.GtE: a >= b}[type(e.ops[0])]
            return None
        bad = []
        for t_ in range(0, 6):
            passed = True
            unknown = False
            for tst, pol in guards_of(mod, pas[0], stop=sv):
                if 'vec_set[t] is None' in unparse(tst):
                    continue
                v = evc(tst, t_, 2)
                if v is None:
                    unknown = True
                    break
                if v != pol:
                    passed = False
            if unknown:
                bad = None
                break
            if passed != (t_ == 2):
                bad.append(t_)
        if bad is None:
            ctx.unrec(rule, 'correlators.py:_sort_vectors#pass-through', 'cannot evaluate the guards of the unsorted pass-through')
        else:
            ctx.check(rule, 'correlators.py:_sort_vectors#pass-through', not bad, 'only the reference timeslice ts is passed through unsorted, every other defined timeslice is sorted',
                      'with ts=2 the timeslices %s are %s' % (bad, 'passed through unsorted / sorted wrongly'), mod.loc(pas[0]))
    else:
        ctx.unrec(rule, 'correlators.py:_sort_vectors#pass-through', 'pass-through append not found')
    # direction of the permutation: the score places vector k of timeslice t into row perm[k] of the reference set (vector k <-> state perm[k]);
    # the output must therefore hold vector k at position perm[k]
    st = [s_ for s_ in statements(sv) if isinstance(s_, ast.Assign) and isinstance(s_.targets[0], ast.Subscript) and unparse(s_.targets[0].value) == 'new_sorting']
    outc = [c for c in walk(sv) if isinstance(c, ast.Call) and isinstance(c.func, ast.Attribute) and c.func.attr == 'append' and unparse(c.func.value) == 'sorted_vec_set'
            and isinstance(c.args[0], ast.ListComp)]
    key = 'correlators.py:_sort_vectors#permutation-direction'
    if len(st) != 1 or len(outc) != 1:
        ctx.unrec(rule, key, 'score store / output comprehension not found')
    else:
        tg = st[0].targets[0]
        row = tg.slice.elts[0] if isinstance(tg.slice, ast.Tuple) else tg.slice
        item = st[0].value.slice if isinstance(st[0].value, ast.Subscript) else None
        # score: item index k, row index perm[k]  -> 'item->position'   |  item index perm[k], row index k -> 'position->item'
        def is_perm_of(e, var):
            return isinstance(e, ast.Subscript) and isinstance(e.value, ast.Name) and 'perm' in e.value.id and unparse(e.slice) == var
        score_dir = None
        if item is not None and isinstance(item, ast.Name) and is_perm_of(row, item.id):
            score_dir = 'item->position'
        elif item is not None and isinstance(row, ast.Name) and is_perm_of(item, row.id):
            score_dir = 'position->item'
        lc = outc[0].args[0]
        g = lc.generators[0]
        elt_idx = lc.elt.slice if isinstance(lc.elt, ast.Subscript) else None
        out_dir = None
        if isinstance(g.iter, ast.Name) and 'perm' in g.iter.id and elt_idx is not None and unparse(elt_idx) == unparse(g.target):
            out_dir = 'position->item'          # position j holds item perm[j]
        elif isinstance(g.iter, ast.Call) and call_name(g.iter) == 'range' and elt_idx is not None and isinstance(elt_idx, ast.Call) and isinstance(elt_idx.func, ast.Attribute) \
                and elt_idx.func.attr == 'index' and 'perm' in unparse(elt_idx.func.value) and unparse(elt_idx.args[0]) == unparse(g.target):
            out_dir = 'item->position'          # position s holds the item k with perm[k] == s
        elif isinstance(g.iter, ast.Call) and call_name(g.iter) == 'range' and is_perm_of(elt_idx, unparse(g.target)):
            out_dir = 'position->item'
        if score_dir is None or out_dir is None:
            ctx.unrec(rule, key, 'cannot classify the permutation direction (score %s, output %s)' % (unparse(st[0]), unparse(lc)))
        else:
            ctx.check(rule, key, score_dir == out_dir, 'score and output use the permutation in the same direction (%s)' % score_dir,
                      'the score matches vector k to reference state perm[k] (%s) but the output places vector perm[j] at position j (%s): the two agree only for '
                      'permutations that are their own inverse, a cyclic reordering of three or more states is sorted wrongly' % (score_dir, out_dir), mod.loc(outc[0]))
    lp = [s for s in statements(sv) if isinstance(s, ast.For) and unparse(s.target) == 't']
    cs = C14.append_counts(lp[0].body, 'sorted_vec_set') if lp else set()
    ctx.check(rule, 'correlators.py:_sort_vectors#one-per-t', cs == {1}, 'one entry per timeslice', 'appends per iteration %s' % sorted(cs))
    ref = find_def(sv, 'reference_sorting')
    ctx.check(rule, 'correlators.py:_sort_vectors#reference', len(ref) == 1 and unparse(ref[0].value) == 'np.array(vec_set[ts])', 'reference = vectors at ts', 'reference %s' % [unparse(s.value) for s in ref])


def d5_projections(ctx, mod):
    rule = 'C16-D5'
    f = mod.func('Corr.Eigenvalue')
    v = find_def(f, 'vec')
    r = [unparse(s.value) for s in statements(f) if isinstance(s, ast.Return)]
    ok = len(v) == 1 and unparse(v[0].value) == 'self.GEVP(t0, ts=ts, sort=sort, **kwargs)[state]' and r == ['self.projected(vec)']
    ctx.check(rule, 'correlators.py:Corr.Eigenvalue', ok, 'projects the correlator with the vectors of the requested state', 'vec=%s return=%s' % ([unparse(s.value) for s in v], r))
    f = mod.func('Corr.prune')
    ev = find_def(f, 'evecs')
    ok = len(ev) == 1 and unparse(ev[0].value) == 'basematrix.GEVP(t0proj, tproj, sort=None)[:Ntrunc]'
    ctx.check(rule, 'correlators.py:Corr.prune#vectors', ok, 'lowest Ntrunc states of the base matrix at (t0proj, tproj)', 'evecs = %s' % [unparse(s.value) for s in ev])
    st = [s for s in statements(f) if isinstance(s, ast.Assign) and isinstance(s.targets[0], ast.Subscript) and unparse(s.targets[0].value).startswith('tmpmat')]
    key = 'correlators.py:Corr.prune#projection'
    if not st:
        ctx.unrec(rule, key, 'projection store not found')
    else:
        import re
        covered = set()
        n_direct = 0
        for k_, one in enumerate(st):
            tg = unparse(one.targets[0])
            m = re.fullmatch(r'tmpmat\[(\w+)\]\[(\w+)\]|tmpmat\[(\w+), (\w+)\]', tg)
            idx = [x for x in m.groups() if x] if m else None
            if not idx:
                ctx.unrec(rule, key + '#%d' % k_, 'store target %s' % tg, mod.loc(one))
                continue
            if isinstance(one.value, ast.Subscript) and unparse(one.value).startswith('tmpmat'):
                # element copied from another element: only the identity copy is valid, the target matrix G(t) is not symmetric in general
                ctx.check(rule, key + '#copy[%s]' % tg, unparse(one.value) == tg, 'no-op copy',
                          "%s is copied from %s: (v_i, G v_j) = (v_j, G v_i) holds only for a symmetric G(t), prune() does not symmetrise its target" % (tg, unparse(one.value)), mod.loc(one))
                continue
            mx = MatX(mod, None, inline=False)
            # `for i, v in enumerate(evecs)` is the index loop over the Ntrunc vectors with v = evecs[i]
            subst_, enum_loops = {}, {}
            q_ = mod.parents.get(one)
            while q_ is not None and q_ is not f:
                if isinstance(q_, ast.For) and isinstance(q_.iter, ast.Call) and call_name(q_.iter) == 'enumerate' and len(q_.iter.args) == 1 and unparse(q_.iter.args[0]) == 'evecs' \
                        and isinstance(q_.target, ast.Tuple) and len(q_.target.elts) == 2 and all(isinstance(x_, ast.Name) for x_ in q_.target.elts):
                    subst_[q_.target.elts[1].id] = 'evecs[%s]' % q_.target.elts[0].id
                    enum_loops[id(q_)] = q_.target.elts[0].id
                q_ = mod.parents.get(q_)
            from .C14 import _subst as _sub14
            g = mx.t(_sub14(one.value, subst_))
            ok = g[0] == 'matmul' and len(g) == 4 and g[1] == ('T', ('idx', S('evecs'), idx[0])) and g[3] == ('idx', S('evecs'), idx[1]) and g[2] in (('idx', S('self'), 't'), ('idx', ('attr', S('self'), 'content'), 't'))
            ctx.check(rule, key + ('' if k_ == 0 else '#%d' % k_), ok, "G'(t)[i, j] = v_i^T G(t) v_j", 'projection %s = %s' % (tg, show(g)), mod.loc(one))
            if not ok:
                continue
            n_direct += 1
            # index pairs reached by the enclosing loops, simulated for Ntrunc = 3
            loops = []
            p_ = mod.parents.get(one)
            while p_ is not None and p_ is not f:
                if isinstance(p_, ast.For) and isinstance(p_.target, ast.Name) and p_.target.id in idx:
                    loops.append(p_)
                elif isinstance(p_, ast.For) and id(p_) in enum_loops and enum_loops[id(p_)] in idx:
                    loops.append(p_)
                p_ = mod.parents.get(p_)
            loops = loops[::-1]

            def sim(k, env):
                if k == len(loops):
                    if all(x in env for x in idx):
                        covered.add((env[idx[0]], env[idx[1]]))
                    return
                lp = loops[k]
                if id(lp) in enum_loops:
                    rng, tname = range(env['Ntrunc']), enum_loops[id(lp)]       # evecs holds the Ntrunc lowest states
                else:
                    tname = lp.target.id
                    try:
                        rng = eval(compile(ast.Expression(body=lp.iter), '<range>', 'eval'), {'__builtins__': {'range': range, 'len': len}}, dict(env))
                    except Exception as ex:
                        raise Unrecognised('loop range %s: %s' % (unparse(lp.iter), ex))
                for v_ in rng:
                    e2 = dict(env)
                    e2[tname] = v_
                    sim(k + 1, e2)
            sim(0, {'Ntrunc': 3})
        if n_direct:
            missing = sorted({(i_, j_) for i_ in range(3) for j_ in range(3)} - covered)
            ctx.check(rule, key + '#coverage', not missing, 'every element (i, j) of the projected matrix is computed from its own pair of vectors', 'for Ntrunc=3 the elements %s are not computed as v_i^T G v_j' % missing, mod.loc(st[0]))
    g = [unparse(guards_of(mod, s, stop=f)[-1][0]) for s in statements(f) if isinstance(s, ast.Raise) and guards_of(mod, s, stop=f)]
    ctx.check(rule, 'correlators.py:Corr.prune#validation', any('Ntrunc >= basematrix.N' in x for x in g) and any('basematrix.N != self.N' in x for x in g), 'rank and size checks', 'guards %s' % g)


def d6b_general_eig(ctx, rule='C16-D6'):
    """the reduced pencil matrix is not symmetric: linalg.eig has to call the general eigenvalue routine"""
    lin = ctx.repo.mod('linalg')
    f = lin.func('eig')
    calls = [lin.dotted(c.func) or '' for c in walk(f, skip_nested_defs=False) if isinstance(c, ast.Call) and '.linalg.' in (lin.dotted(c.func) or '')]
    ok = any(c.endswith('linalg.eig') or c.endswith('linalg.eigvals') for c in calls) and not any(c.endswith(('linalg.eigh', 'linalg.eigvalsh')) for c in calls)
    ctx.check(rule, 'linalg.py:eig#general-solver', ok, 'eigenvalues of a general (non-symmetric) matrix',
              'linalg.eig calls %s: a symmetric solver reads one triangle only, the matrix pencil Z = pinv(Y1) Y2 is not symmetric and its eigenvalues (the energies) come out wrong' % calls, lin.loc(f))


def d6_pencil(ctx):
    rule = 'C16-D6'
    m = ctx.repo.mod('mpm')
    f = m.func('matrix_pencil_method')
    hk = [c for c in walk(f) if isinstance(c, ast.Call) and (m.dotted(c.func) or '') == 'scipy.linalg.hankel']
    ok = False
    if len(hk) == 1 and len(hk[0].args) == 2 and all(isinstance(a, ast.Subscript) and isinstance(a.slice, ast.Slice) for a in hk[0].args):
        a0, a1 = hk[0].args
        row = unparse(a0.value)
        # the row is data[n] of an index loop or the element of a loop / comprehension over data
        is_row = row == 'data[n]'
        q_ = m.parents.get(hk[0])
        while q_ is not None and q_ is not f and not is_row:
            gens = q_.generators if isinstance(q_, (ast.ListComp, ast.GeneratorExp)) else ([q_] if isinstance(q_, ast.For) else [])
            is_row = any(unparse(g_.target) == row and unparse(g_.iter) == 'data' for g_ in gens)
            q_ = m.parents.get(q_)
        ok = is_row and unparse(a1.value) == row and unparse(a0.slice) == ':n_data - p' and unparse(a1.slice) == 'n_data - p - 1:'
    ctx.check(rule, 'mpm.py:matrix_pencil_method#hankel', ok, 'Hankel matrix with first column x[0..N-p-1] and last row x[N-p-1..N-1] (shared corner element)', 'hankel call %s' % [unparse(c) for c in hk])
    y1, y2 = find_def(f, 'y1'), find_def(f, 'y2')
    ok = len(y1) == 1 and len(y2) == 1 and unparse(y1[0].value) == 'np.concatenate(matrix[:, :, :p])' and unparse(y2[0].value) == 'np.concatenate(matrix[:, :, 1:])'
    ctx.check(rule, 'mpm.py:matrix_pencil_method#shifted-pair', ok, 'y1 = columns 0..p-1, y2 = columns 1..p (one step later)', 'y1=%s y2=%s' % ([unparse(s.value) for s in y1], [unparse(s.value) for s in y2]))
    sv = [s for s in statements(f) if isinstance(s, ast.Assign) and isinstance(s.value, ast.Call) and call_name(s.value) == 'svd']
    ok = len(sv) == 1 and unparse(sv[0].targets[0]) == '(u, s, vh)' and unparse(sv[0].value.args[0]) == 'y2'
    ctx.check(rule, 'mpm.py:matrix_pencil_method#svd', ok, 'SVD of y2', 'svd statement %s' % [unparse(s) for s in sv])
    z = find_def(f, 'z')
    key = 'mpm.py:matrix_pencil_method#z'
    if len(z) != 1:
        ctx.unrec(rule, key, 'z not found')
    else:
        g = MatX(m, None, inline=False).t(z[0].value)
        sl2 = unparse(ast.parse('u[:, :k]').body[0].value.slice)
        want = ('matmul', ('call', 'numpy.diag', ('div', ('const', 1.0), ('idx', S('s'), ':k'))), ('T', ('idx', S('u'), sl2)), S('y1'), ('idx', ('T', S('vh')), sl2))
        ctx.check(rule, key, g == want, 'z = diag(1/s_k) U_k^T y1 V_k (rank-k pseudo-inverse of y2 applied to y1)', 'z = %s' % show(g), m.loc(z[0]))
    en = find_def(f, 'energy_levels')
    ok = len(en) == 1 and unparse(en[0].value) == 'np.log(np.abs(eig(z, **kwargs)))'
    ctx.check(rule, 'mpm.py:matrix_pencil_method#energies', ok, 'E = log|eigenvalues of z|', 'energies = %s' % [unparse(s.value) for s in en])
    r = [unparse(s.value) for s in statements(f) if isinstance(s, ast.Return)]
    ctx.check(rule, 'mpm.py:matrix_pencil_method#sorted', r == ['sorted(energy_levels, key=lambda x: abs(x.value))'], 'sorted by |E|', 'returns %s' % r)
    g = [unparse(guards_of(m, s, stop=f)[-1][0]) for s in statements(f) if isinstance(s, ast.Raise) and guards_of(m, s, stop=f)]
    ok = any('n_data <= p' in x for x in g) and any('p < k or n_data - p < k' in x for x in g) and any('lengths.count' in x for x in g)
    ctx.check(rule, 'mpm.py:matrix_pencil_method#validation', ok, 'pencil parameter / number of states validated', 'guards %s' % g)
    pd = [s for s in statements(f) if isinstance(s, ast.Assign) and unparse(s.targets[0]) == 'p']
    ctx.check(rule, 'mpm.py:matrix_pencil_method#default-p', len(pd) == 1 and unparse(pd[0].value) == 'max(n_data // 2, k)', 'default p = max(N/2, k)', 'p = %s' % [unparse(s.value) for s in pd])


def d7_method_choice(ctx, mod):
    from .. import pat
    rule = 'C16-D3'
    f = mod.func('Corr.GEVP')
    missing = pat.has_all(f, ["$M = kwargs.get('method', 'eigh')", "$L = linalg.cholesky($G)", "$LI = linalg.inv($L)", "$M = 'cholesky'"])
    ctx.check(rule, 'correlators.py:Corr.GEVP#method', not missing, "default method eigh; with propagated errors the Cholesky solution with L = cholesky(G(t0)), L^-1 = inv(L)", 'missing %s' % missing, mod.loc(f))
    missing = pat.has_all(f, ["$L = np.linalg.cholesky(_get_mat_at_t(t0, vector_obs=False))", "$LI = np.linalg.inv($L)", '$LI = None'])
    ctx.check(rule, 'correlators.py:Corr.GEVP#positivity-check', not missing, 'G(t0) is Cholesky decomposed (positive definiteness), the inverse factor is prepared for method=cholesky', 'missing %s' % missing, mod.loc(f))
    sv = [c for c in walk(f) if isinstance(c, ast.Call) and call_name(c) == '_GEVP_solver']
    good = pat.find_all(f, '_GEVP_solver(Gt, G0, method=method, chol_inv=chol_inv)', modulo_defs=False)
    ctx.check(rule, 'correlators.py:Corr.GEVP#solver-calls', len(sv) == 2 and len(good) == 2, 'both solver calls pass (G(t), G(t0), method, chol_inv)', 'solver calls %s' % [unparse(c) for c in sv], mod.loc(f))


def run(ctx):
    ctx.rule('C16-D0', 'null safety of the GEVP family')
    ctx.rule('C16-D1', 'solver branches: rows = vectors, descending order, one reversal; Cholesky algebra')
    ctx.rule('C16-D2', 'matrices are read through the symmetrised correlator')
    ctx.rule('C16-D3', 'alignment of the vector list with the timeslices')
    ctx.rule('C16-D4', 'request validation, state selection after sorting, _sort_vectors outputs')
    ctx.rule('C16-D5', 'Eigenvalue / prune projections')
    ctx.rule('C16-D6', 'matrix pencil construction')
    ctx.not_decided += ['the eigen-equation G(t) v = lambda G(t0) v', 'recovery of exact spectra', 'agreement of the two solvers', 'optimality of _sort_vectors']
    mod = ctx.repo.mod('correlators')
    ctx.guarded('C16-D0', 'correlators.py@null-safety', C14.report_null, ctx, 'C16-D0', None, mod, lambda q: q in C14.C16_FUNCS, 'GEVP family functions analysed for null safety', 6)
    ctx.guarded('C16-D1', 'correlators.py:_GEVP_solver', d1_solver, ctx, mod)
    ctx.guarded('C16-D2', 'correlators.py:Corr.GEVP@symmetrised', d2_symmetrised, ctx, mod)
    ctx.guarded('C16-D3', 'correlators.py:Corr.GEVP@alignment', d3_alignment, ctx, mod)
    ctx.guarded('C16-D4', 'correlators.py:Corr.GEVP@validation', d4_validation, ctx, mod)
    from .. import aliasloop
    ctx.guarded('C16-D5', 'correlators.py@aliased-buffers', aliasloop.alias_in_loop, ctx, 'C16-D5', mod, ['Corr.prune', 'Corr.GEVP', '_sort_vectors', '_GEVP_solver', 'Corr.projected', 'Corr.Eigenvalue', 'Corr.Hankel'])
    ctx.guarded('C16-D3', 'correlators.py:Corr.GEVP@method', d7_method_choice, ctx, mod)
    ctx.guarded('C16-D5', 'correlators.py@projections', d5_projections, ctx, mod)
    ctx.guarded('C16-D6', 'mpm.py', d6_pencil, ctx)
    ctx.guarded('C16-D6', 'linalg.py:eig', d6b_general_eig, ctx)
    from .. import hiddenstate
    ctx.rule('C16-D7', 'no state shared between calls or between correlators (caches keyed by t0 / shapes)')
    cm_ = ctx.repo.mod('correlators')
    ctx.guarded('C16-D7', 'correlators.py@hidden-state', hiddenstate.check, ctx, 'C16-D7', cm_, ['Corr.GEVP', 'Corr.Eigenvalue', 'Corr.projected', 'Corr.prune', 'Corr.is_matrix_symmetric', 'Corr.matrix_symmetric',
                                                                                              '_GEVP_solver', '_sort_vectors', '_get_mat_at_t'], 'the solution of the eigenvalue problem')
    ctx.guarded('C16-D7', 'mpm.py@hidden-state', hiddenstate.check, ctx, 'C16-D7', ctx.repo.mod('mpm'), ['matrix_pencil_method'], 'the extracted energies')


SELFTEST = [
    ('eig-symmetric-solver', 'pyerrors/linalg.py', 'anp.real(anp.linalg.eig(x)[0])', 'anp.linalg.eigh(x)[0]', 'C16-D6'),
    ('prune-scratch-not-copied', 'pyerrors/correlators.py', "            rmat.append(np.copy(tmpmat))", "            rmat.append(tmpmat)", 'C16-D5'),
    ('prune-mirror-copy', 'pyerrors/correlators.py', "                for j in range(Ntrunc):\n                    tmpmat[i][j] = evecs[i].T @ self[t] @ evecs[j]\n", "                for j in range(i + 1):\n                    tmpmat[i][j] = evecs[i].T @ self[t] @ evecs[j]\n                    tmpmat[j][i] = tmpmat[i][j]\n", 'C16-D5'),
    ('prune-triangle-only', 'pyerrors/correlators.py', "                for j in range(Ntrunc):\n                    tmpmat[i][j] = evecs[i].T @ self[t] @ evecs[j]\n", "                for j in range(i + 1):\n                    tmpmat[i][j] = evecs[i].T @ self[t] @ evecs[j]\n", 'C16-D5'),
    ('benign-prune-two-direct-stores', 'pyerrors/correlators.py', "                for j in range(Ntrunc):\n                    tmpmat[i][j] = evecs[i].T @ self[t] @ evecs[j]\n", "                for j in range(i + 1):\n                    tmpmat[i][j] = evecs[i].T @ self[t] @ evecs[j]\n                    tmpmat[j][i] = evecs[j].T @ self[t] @ evecs[i]\n", 'BENIGN'),
    ('fix-reverted-prune', 'pyerrors/correlators.py', "            if self.content[t] is None:\n                rmat.append(None)\n                continue\n            for i in range(Ntrunc):", "            for i in range(Ntrunc):", 'C16-D0'),
    ('eigh-no-reversal', 'pyerrors/correlators.py', "return scipy.linalg.eigh(Gt, G0, lower=True)[1].T[::-1]", "return scipy.linalg.eigh(Gt, G0, lower=True)[1].T", 'C16-D1'),
    ('eigh-component-reversal', 'pyerrors/correlators.py', "return scipy.linalg.eigh(Gt, G0, lower=True)[1].T[::-1]", "return scipy.linalg.eigh(Gt, G0, lower=True)[1][::-1].T", 'C16-D1'),
    ('eigh-no-transpose', 'pyerrors/correlators.py', "return scipy.linalg.eigh(Gt, G0, lower=True)[1].T[::-1]", "return scipy.linalg.eigh(Gt, G0, lower=True)[1][:, ::-1]", 'C16-D1'),
    ('chol-flip-axis', 'pyerrors/correlators.py', "output = np.flip(ev, axis=1).T", "output = np.flip(ev, axis=0).T", 'C16-D1'),
    ('chol-double-reversal', 'pyerrors/correlators.py', "output = np.flip(ev, axis=1).T", "output = np.flip(ev, axis=1).T[::-1]", 'C16-D1'),
    ('chol-transform', 'pyerrors/correlators.py', "new_matrix = matmul(chol_inv, Gt, chol_inv.T)", "new_matrix = matmul(chol_inv.T, Gt, chol_inv)", 'C16-D1'),
    ('chol-backtransform', 'pyerrors/correlators.py', "ev = matmul(chol_inv.T, ev)", "ev = matmul(chol_inv, ev)", 'C16-D1'),
    ('eigh-upper', 'pyerrors/correlators.py', "scipy.linalg.eigh(Gt, G0, lower=True)", "scipy.linalg.eigh(G0, Gt, lower=True)", 'C16-D1'),
    ('unsymmetrised-read', 'pyerrors/correlators.py', "                return np.vectorize(lambda x: x.value)(symmetric_corr[t])", "                return np.vectorize(lambda x: x.value)(self[t])", 'C16-D2'),
    ('alignment-off-by-one', 'pyerrors/correlators.py', "            all_vecs = [None] * (t0 + 1)", "            all_vecs = [None] * t0", 'C16-D3'),
    ('failure-not-recorded', 'pyerrors/correlators.py', "                except Exception:\n                    all_vecs.append(None)", "                except Exception:\n                    pass", 'C16-D3'),
    ('ts-check', 'pyerrors/correlators.py', "            if (ts <= t0):", "            if (ts < t0):", 'C16-D4'),
    ('state-before-sorting', 'pyerrors/correlators.py', "                all_vecs = _sort_vectors(all_vecs, ts)", "                _sort_vectors(all_vecs, ts)", 'C16-D4'),
    ('prune-projection', 'pyerrors/correlators.py', "tmpmat[i][j] = evecs[i].T @ self[t] @ evecs[j]", "tmpmat[i][j] = evecs[i].T @ self[t] @ evecs[i]", 'C16-D5'),
    ('eigenvalue-state', 'pyerrors/correlators.py', "vec = self.GEVP(t0, ts=ts, sort=sort, **kwargs)[state]", "vec = self.GEVP(t0, ts=ts, sort=sort, **kwargs)[0]", 'C16-D5'),
    ('pencil-shift', 'pyerrors/mpm.py', "y2 = np.concatenate(matrix[:, :, 1:])", "y2 = np.concatenate(matrix[:, :, :p])", 'C16-D6'),
    ('pencil-z', 'pyerrors/mpm.py', "z = np.diag(1. / s[:k]) @ u[:, :k].T @ y1 @ vh.T[:, :k]", "z = np.diag(s[:k]) @ u[:, :k].T @ y1 @ vh.T[:, :k]", 'C16-D6'),
    ('pencil-hankel', 'pyerrors/mpm.py', "scipy.linalg.hankel(data[n][:n_data - p], data[n][n_data - p - 1:])", "scipy.linalg.hankel(data[n][:n_data - p], data[n][n_data - p:])", 'C16-D6'),
    ('sortvec-returns-floats', 'pyerrors/correlators.py', "sorted_vec_set.append([vec_set_in[t][best_perm.index(k)] for k in range(N)])", "sorted_vec_set.append([vec_set[t][best_perm.index(k)] for k in range(N)])", 'C16-D4'),
    ('symmetry-test-break', 'pyerrors/correlators.py', "                    if self[t][i, j] is self[t][j, i]:\n                        continue", "                    if self[t][i, j] is self[t][j, i]:\n                        break", 'C16-D2'),
    ('sortvec-early-times-unsorted', 'pyerrors/correlators.py', "        elif not t == ts:", "        elif t > ts:", 'C16-D4'),
    ('fix-reverted-sortvec-direction', 'pyerrors/correlators.py', "sorted_vec_set.append([vec_set_in[t][best_perm.index(k)] for k in range(N)])", "sorted_vec_set.append([vec_set_in[t][k] for k in best_perm])", 'C16-D4'),
    ('benign-eigh-flip', 'pyerrors/correlators.py', "return scipy.linalg.eigh(Gt, G0, lower=True)[1].T[::-1]", "return np.flip(scipy.linalg.eigh(Gt, G0, lower=True)[1], axis=1).T", 'BENIGN'),
]
