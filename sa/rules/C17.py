"""C17  File readers return exactly the stored numbers at the right configurations.

Decides only:
  D1 pairing discipline: the replica-name list handed to Obs() together with samples that were read in file-list order is never
     reordered on its own (sorted / sort_names / .sort) unless the file list is sorted by the same call on all paths of its producer
  D2 directory listings (os.walk / os.listdir / iterdir) pass a numeric sort before they are used positionally
  D3 selection agreement: the slice applied to the samples and the range() given as configuration list use the same start / stop
     indices of the same replica and the same stride, both inclusive
  D4 struct layouts: read sizes = struct format sizes (shared analysis with C18-D1); ms5_xsf slice offsets agree with the pack string
  D5 configuration numbers and replica names are derived from the file / file name in the same loop iteration as the samples
"""
import ast

import sympy as sp

from ..srcmodel import Unrecognised, unparse, call_name, kwarg, walk, statements, guards_of, const
from .. import binreads
from .C07 import find_def

LEVEL = 'other'
EXPLANATION = ('def-use / ordering analysis of the parallel lists (samples, names, configuration lists) handed to Obs() in the reader modules; taint from directory listings to a sort; '
               'agreement of sample slices and configuration ranges; symbolic struct sizes and offsets')
LEVEL_TEXT = ('decides only: no reader reorders replica names independently of the file list the samples were read from; listings are sorted numerically before positional use; range / stride / '
              'explicit selections slice samples and configuration numbers identically; binary layouts are self-consistent. That the numbers equal the stored ones for arbitrary files is not decided.')
TECHNIQUE = 'parallel-list ordering discipline (dataflow), listing-to-sort taint rule, slice/range agreement, symbolic struct layouts, small-domain evaluation of the extracted record-distribution statements on token records, stale-buffer rule'

SORT_CALLS = ('sorted', 'sort_names')


def reorder_statements(mod, f):
    """statements that reorder a list variable in place or by rebinding: [(var, how, stmt)]"""
    out = []
    for s in statements(f):
        if isinstance(s, ast.Assign) and len(s.targets) == 1 and isinstance(s.targets[0], ast.Name) and isinstance(s.value, ast.Call) \
                and call_name(s.value) in SORT_CALLS + ('reversed',) and s.value.args and unparse(s.value.args[0]) == s.targets[0].id:
            out.append((s.targets[0].id, call_name(s.value), s))
        if isinstance(s, ast.Expr) and isinstance(s.value, ast.Call) and isinstance(s.value.func, ast.Attribute) and s.value.func.attr in ('sort', 'reverse') and isinstance(s.value.func.value, ast.Name):
            out.append((s.value.func.value.id, '.' + s.value.func.attr, s))
    return out


def producer_sorted_on_all_paths(mod, fname, sortfn):
    """does every return of `fname` return a value that passed through sortfn (or an in-place numeric sort)?"""
    if not mod.has_func(fname):
        return None
    f = mod.func(fname)
    rets = [s for s in statements(f) if isinstance(s, ast.Return) and s.value is not None]
    ok = True
    why = []
    for r in rets:
        v = r.value
        if isinstance(v, ast.Call) and call_name(v) == sortfn:
            continue
        if isinstance(v, ast.Name):
            # all assignments / in-place sorts of that name that reach this return
            srt = [x for x in reorder_statements(mod, f) if x[0] == v.id and (x[1] == sortfn or x[1] == '.sort')]
            params = [a.arg for a in f.args.args]
            if v.id in params and not srt:
                ok = False
                why.append('returns its parameter %s unsorted (line %d)' % (v.id, r.lineno))
                continue
            if not srt:
                ok = False
                why.append('returns %s unsorted (line %d)' % (v.id, r.lineno))
            continue
        ok = False
        why.append('returns %s' % unparse(v)[:40])
    return ok, why


def d1_pairing(ctx):
    rule = 'C17-D1'
    n = 0
    for mn in ('input.openQCD', 'input.misc', 'input.sfcf', 'input.hadrons'):
        m = ctx.repo.mod(mn)
        for q, f in m.functions():
            if '.' in q:
                continue
            obs_calls = [c for c in walk(f) if isinstance(c, ast.Call) and call_name(c) == 'Obs' and isinstance(c.func, ast.Name) and len(c.args) >= 2 or
                         (isinstance(c, ast.Call) and call_name(c) == 'Obs' and kwarg(c, 'names') is not None)]
            if not obs_calls:
                continue
            name_vars = set()
            for c in obs_calls:
                nm = c.args[1] if len(c.args) >= 2 else kwarg(c, 'names')
                if isinstance(nm, ast.Name):
                    name_vars.add(nm.id)
            if not name_vars:
                continue
            n += 1
            # file list(s): results of *_find_files / _get_files calls or listing variables iterated to open files
            file_vars = {}
            for s in statements(f):
                if isinstance(s, ast.Assign) and isinstance(s.value, ast.Call) and call_name(s.value) in ('_find_files', '_get_files') and isinstance(s.targets[0], ast.Name):
                    file_vars[s.targets[0].id] = call_name(s.value)
            ro = reorder_statements(m, f)
            name_ro = [x for x in ro if x[0] in name_vars]
            key0 = '%s.py:%s' % (mn.replace('.', '/'), q)
            if not name_ro:
                ctx.holds(rule, key0 + '#names-follow-file-order', 'the name list %s is never reordered on its own' % sorted(name_vars), m.loc(f))
                continue
            for var, how, st in name_ro:
                key = key0 + '#%s=%s(%s)' % (var, how.strip('.'), var)
                # is the file list reordered by the same function in this function?
                same_here = [x for x in ro if x[0] in file_vars and x[1] == how]
                user_names = any(isinstance(d.value, ast.Call) and 'kwargs.get' in unparse(d.value) and 'names' in unparse(d.value) for d in find_def(f, var)) or var in [a.arg for a in f.args.args]
                guarded_else = [t for t, pol in guards_of(m, st, stop=f)]
                if same_here and user_names and not guarded_else:
                    ctx.violated(rule, key, 'replica names supplied by the caller (%s) and the file list are sorted independently of each other: the n-th name no longer labels the n-th file given' % var, m.loc(st))
                    continue
                if same_here:
                    ctx.holds(rule, key, 'names and files are reordered by the same function; names are derived from the file names', m.loc(st))
                    continue
                # names derived from a list that is sorted by the same function before?
                derived_sorted = False
                for d in find_def(f, var):
                    if isinstance(d.value, ast.Call) and d.value.args and isinstance(d.value.args[0], ast.Name):
                        src = d.value.args[0].id
                        if any(x[0] == src and x[1] == how and x[2].lineno < d.lineno for x in ro):
                            derived_sorted = True
                if derived_sorted:
                    ctx.holds(rule, key, 'names are derived from a list that was sorted by the same function', m.loc(st))
                    continue
                if not file_vars:
                    ctx.unrec(rule, key, 'name list is reordered and no file list producer was recognised', m.loc(st))
                    continue
                verdicts = []
                for fv, prod in file_vars.items():
                    r = producer_sorted_on_all_paths(m, prod, how)
                    verdicts.append((fv, prod, r))
                bad = [(fv, prod, r[1]) for fv, prod, r in verdicts if r is not None and not r[0]]
                if bad:
                    ctx.violated(rule, key, 'the name list is reordered by %s on its own, but the samples follow the order of %s whose producer %s %s: data can be attached to the wrong replica name' % (
                        how, bad[0][0], bad[0][1], '; '.join(bad[0][2])), m.loc(st))
                else:
                    ctx.holds(rule, key, 'the file list producer sorts with the same function on all paths', m.loc(st))
    ctx.floor('reader functions building Obs with a name list', n, 5)
    # co-sorting: B = [b for _, b in sorted(zip(A, B))] permutes B by the order of A *as A is at that moment*; it pairs B with the
    # sorted A only if A itself has not been reordered since the two lists were built in parallel
    nco = 0
    for mn in ('input.openQCD', 'input.misc', 'input.sfcf', 'input.hadrons'):
        m = ctx.repo.mod(mn)
        for q, f in m.functions():
            if '.' in q:
                continue
            ro = reorder_statements(m, f)
            for st in statements(f):
                if not (isinstance(st, ast.Assign) and isinstance(st.targets[0], ast.Name) and isinstance(st.value, ast.ListComp)):
                    continue
                it = st.value.generators[0].iter
                if not (isinstance(it, ast.Call) and call_name(it) == 'sorted' and it.args and isinstance(it.args[0], ast.Call) and call_name(it.args[0]) == 'zip' and len(it.args[0].args) == 2):
                    continue
                a_, b_ = it.args[0].args
                if not (isinstance(a_, ast.Name) and isinstance(b_, ast.Name) and b_.id == st.targets[0].id):
                    continue
                nco += 1
                before = [x for x in ro if x[0] == a_.id and x[2].lineno < st.lineno]
                key = '%s.py:%s#co-sort[%s by %s]' % (mn.replace('.', '/'), q, b_.id, a_.id)
                ctx.check(rule, key, not before, '%s is permuted by the order of %s before %s itself is sorted: element k of both lists still belongs together' % (b_.id, a_.id, a_.id),
                          '%s is sorted (line %d) before it is used as the key that permutes %s: the permutation is the identity, %s keeps its old order while %s is reordered' % (
                              a_.id, before[0][2].lineno if before else 0, b_.id, b_.id, a_.id), m.loc(st))
                after = [x for x in ro if x[0] == a_.id and x[2].lineno > st.lineno]
                ctx.check(rule, key + '-key-sorted-afterwards', bool(after), '%s is sorted afterwards by %s' % (a_.id, after[0][1] if after else ''), '%s is never sorted after the co-sort of %s: the samples are read in the old order' % (a_.id, b_.id), m.loc(st))
    ctx.floor('co-sorted name lists', nco, 1)
    # sfcf: user supplied names are not sorted, derived names follow the sorted listing
    sf = ctx.repo.mod('input.sfcf')
    f = sf.func('read_sfcf_multi')
    ro = reorder_statements(sf, f)
    nn = [x for x in ro if x[0] == 'new_names']
    ok = len(nn) == 1 and not any(pol and "'names' in kwargs" in unparse(t) for t, pol in guards_of(sf, nn[0][2], stop=f))
    ctx.check(rule, 'input/sfcf.py:read_sfcf_multi#user-names-unsorted', ok, 'only derived names are sorted; user supplied names keep their order relative to the sorted replica list', 'new_names sorted under %s' % [unparse(t) for x in nn for t, p in guards_of(sf, x[2], stop=f)])


def d2_listings(ctx):
    rule = 'C17-D2'
    exceptions = {('input.hadrons', 'read_DistillationContraction_hd5'): 'entries are processed independently into a dictionary keyed by their own content (no positional use)',
                  ('input.utils', 'check_params'): 'diagnostic helper outside the reader set of the property'}
    n = 0
    for mn, m in ctx.repo.modules.items():
        if not mn.startswith('input.') or mn == 'input.bdio':
            continue
        for q, f in m.functions():
            lists = []
            for c in walk(f):
                if isinstance(c, ast.Call) and (m.dotted(c.func) or '') in ('os.walk', 'os.listdir') or (isinstance(c, ast.Call) and isinstance(c.func, ast.Attribute) and c.func.attr == 'iterdir'):
                    lists.append(c)
            if not lists:
                continue
            n += 1
            key = '%s.py:%s#listing-sorted' % (mn.replace('.', '/'), q)
            if (mn, q) in exceptions:
                ctx.holds(rule, key, 'excepted: %s' % exceptions[(mn, q)], m.loc(lists[0]))
                continue
            # variables that hold the listing
            lvars = set()
            for s in statements(f):
                if isinstance(s, ast.Assign) and isinstance(s.targets[0], ast.Name) and any(c in list(walk(s.value)) for c in lists):
                    lvars.add(s.targets[0].id)
                if isinstance(s, ast.Expr) and isinstance(s.value, ast.Call) and isinstance(s.value.func, ast.Attribute) and s.value.func.attr == 'extend' and isinstance(s.value.func.value, ast.Name) \
                        and unparse(s.value.args[0]) in ('filenames', 'dirnames'):
                    lvars.add(s.value.func.value.id)
            # propagate through simple derivations  x = list(filter(..., l)) / x = l / for v in l: x.append(v)
            for _ in range(3):
                for s in statements(f):
                    if isinstance(s, ast.Assign) and isinstance(s.targets[0], ast.Name) and any(isinstance(nm, ast.Name) and nm.id in lvars for nm in ast.walk(s.value)):
                        lvars.add(s.targets[0].id)
                    if isinstance(s, ast.For) and isinstance(s.iter, ast.Name) and s.iter.id in lvars and isinstance(s.target, ast.Name):
                        for c in walk(s):
                            if isinstance(c, ast.Call) and isinstance(c.func, ast.Attribute) and c.func.attr == 'append' and isinstance(c.func.value, ast.Name) and c.args and unparse(c.args[0]) == s.target.id:
                                lvars.add(c.func.value.id)
            ro = [x for x in reorder_statements(m, f) if x[0] in lvars and x[1] in ('sort_names', '.sort', 'sorted')]
            numeric = []
            for var, how, st in ro:
                if how == 'sort_names':
                    numeric.append(st)
                else:
                    k = kwarg(st.value, 'key')
                    if k is not None and ('int(' in unparse(k) or 'get_cnfg_number' in unparse(k)):
                        numeric.append(st)
            if not numeric:
                ctx.violated(rule, key, 'the directory listing held in %s is used without a numeric sort: the result depends on the order in which the operating system lists the files' % sorted(lvars), m.loc(lists[0]))
                continue
            # path analysis: on every path from the listing to the end of the function a numeric sort of a derived list must be passed
            flags = sorted({unparse(t).replace('not ', '') for s_ in statements(f) if isinstance(s_, ast.If) for t in [s_.test] if unparse(t).replace('not ', '') in ('compact', 'appended')})
            calls_sorting_helper = lambda st: any(isinstance(c, ast.Call) and call_name(c) in ('_get_appended_rep_names',) for c in walk(st))
            failures = []

            def run_block(stmts, state, assume):
                for st in stmts:
                    if state == 'exit':
                        break
                    if isinstance(st, ast.If):
                        tt = unparse(st.test)
                        base = tt.replace('not ', '')
                        if base in assume and tt in (base, 'not ' + base):
                            val = assume[base] if tt == base else not assume[base]
                            state = run_block(st.body if val else st.orelse, state, assume)
                            continue
                        a = run_block(st.body, state, assume)
                        b = run_block(st.orelse, state, assume)
                        single = tt.startswith('len(') and tt.endswith('> 1') and any(('len(%s)' % v) in tt for v in lvars)
                        if single and b == 'unsorted':
                            b = 'sorted'          # a single entry needs no sorting
                        outs = [x for x in (a, b) if x != 'exit']
                        state = 'exit' if not outs else ('unsorted' if 'unsorted' in outs else ('sorted' if 'sorted' in outs else 'none'))
                        continue
                    if isinstance(st, (ast.For, ast.While)):
                        if any(c in list(walk(st)) for c in lists):
                            state = 'unsorted'
                        else:
                            inner = run_block(st.body, state, assume)
                            if inner == 'sorted':
                                state = 'sorted'      # the listing is only consumed inside the loop, after the sort
                        continue
                    if isinstance(st, (ast.Raise,)):
                        return 'exit'
                    if isinstance(st, ast.Return):
                        if state == 'unsorted' and st.value is not None and any(isinstance(n_, ast.Name) and n_.id in lvars for n_ in ast.walk(st.value)):
                            failures.append((st, dict(assume)))
                        return 'exit'
                    if any(c in list(walk(st)) for c in lists):
                        state = 'unsorted'
                    if st in numeric or calls_sorting_helper(st):
                        if state == 'unsorted':
                            state = 'sorted'
                    if isinstance(st, (ast.With, ast.Try)):
                        state = run_block(st.body, state, assume)
                return state
            import itertools
            for combo in itertools.product([True, False], repeat=len(flags)):
                assume = dict(zip(flags, combo))
                end = run_block(f.body, 'none', assume)
                if end == 'unsorted' and not any(isinstance(s_, ast.Return) for s_ in f.body):
                    failures.append((f.body[-1], assume))
            ctx.check(rule, key, not failures, 'listing %s passes a numeric sort (%s) on every path before it is used or returned' % (sorted(lvars), ', '.join(sorted({unparse(s_)[:40] for s_ in numeric}))),
                      'the listing %s reaches line %s unsorted%s: the result depends on the order in which the operating system lists the files' % (
                          sorted(lvars), failures[0][0].lineno if failures else '?', (' when ' + str(failures[0][1])) if failures and failures[0][1] else ''), m.loc(lists[0]))
    ctx.floor('functions with a directory listing', n, 6)
    # sort_names sorts numerically
    um = ctx.repo.mod('input.utils')
    f = um.func('sort_names')
    keys = [unparse(kwarg(c, 'key')) for c in walk(f) if isinstance(c, ast.Call) and isinstance(c.func, ast.Attribute) and c.func.attr == 'sort' and kwarg(c, 'key') is not None]
    ctx.check(rule, 'input/utils.py:sort_names#numeric-keys', len(keys) == 3 and all('int(' in k for k in keys), 'all three sort keys are integers extracted from the name', 'sort keys %s' % keys)
    r = [s for s in statements(f) if isinstance(s, ast.Return)]
    ctx.check(rule, 'input/utils.py:sort_names#returns-list', len(r) == 1 and unparse(r[0].value) == f.args.args[0].arg, 'returns the sorted list', 'returns %s' % [unparse(x.value) for x in r])


def d3_selection(ctx):
    rule = 'C17-D3'
    m = ctx.repo.mod('input.openQCD')
    n = 0
    from ..srcmodel import dezip_view
    for q in ('read_rwms', '_extract_flowed_energy_density', '_read_flow_obs'):
        f = m.func(q)
        f, _nz = dezip_view(m, f)          # zip(configlist, r_start_index, ...) is read as the loop over the replica index
        idl = find_def(f, 'idl')
        key = 'input/openQCD.py:%s#selection' % q
        if len(idl) != 1 or not isinstance(idl[0].value, ast.ListComp) or not (isinstance(idl[0].value.elt, ast.Call) and call_name(idl[0].value.elt) == 'range'):
            ctx.unrec(rule, key, 'idl is not [range(...) for rep in ...]')
            continue
        n += 1
        rg = idl[0].value.elt
        rep = unparse(idl[0].value.generators[0].target)

        def strip_int(e):
            return e.args[0] if isinstance(e, ast.Call) and call_name(e) == 'int' else e
        a0, a1 = strip_int(rg.args[0]), rg.args[1]
        a1l = strip_int(a1.left) if isinstance(a1, ast.BinOp) else None
        ok_range = unparse(a0) == 'configlist[%s][r_start_index[%s]]' % (rep, rep) and isinstance(a1, ast.BinOp) and isinstance(a1.op, ast.Add) and const(a1.right) == 1 and \
            unparse(a1l) == 'configlist[%s][r_stop_index[%s]]' % (rep, rep)
        step = unparse(rg.args[2]) if len(rg.args) > 2 else '1'
        # the sample slice
        slices = []
        for c in walk(f):
            if isinstance(c, ast.Subscript) and isinstance(c.slice, ast.Slice) and c.slice.lower is not None and 'r_start_index' in unparse(c.slice.lower):
                par = m.parents.get(c)
                stride = '1'
                if isinstance(par, ast.Subscript) and par.value is c and isinstance(par.slice, ast.Slice) and par.slice.step is not None:
                    stride = unparse(par.slice.step)
                slices.append((c, stride))
        if len(slices) != 1:
            ctx.unrec(rule, key, 'expected one sample slice [r_start_index:r_stop_index + 1], found %d' % len(slices))
            continue
        sl, stride = slices[0]
        lo, hi = sl.slice.lower, sl.slice.upper
        import re
        rv = re.findall(r'r_start_index\[(\w+)\]', unparse(lo))
        ok_slice = bool(rv) and isinstance(hi, ast.BinOp) and isinstance(hi.op, ast.Add) and const(hi.right) == 1 and unparse(hi.left) == 'r_stop_index[%s]' % rv[0]
        # the sliced object is indexed by the same replica variable
        in_rep_loop = False
        p_ = m.parents.get(sl)
        while p_ is not None and p_ is not f:
            if isinstance(p_, ast.For) and rv and rv[0] in [n_.id for n_ in ast.walk(p_.target) if isinstance(n_, ast.Name)]:
                in_rep_loop = True
            p_ = m.parents.get(p_)
        base_rep_ok = bool(rv) and (('[%s]' % rv[0]) in unparse(sl.value) or in_rep_loop)
        ctx.check(rule, key, ok_range and ok_slice and base_rep_ok, 'samples[start:stop+1] and range(cfg[start], cfg[stop]+1) use the start/stop indices of the same replica, both inclusive',
                  'range %s vs slice %s[%s]' % (unparse(rg), unparse(sl.value), unparse(sl.slice)), m.loc(idl[0]))
        ctx.check(rule, key + '-stride', step == stride, 'stride of the samples (%s) = step of the configuration range (%s)' % (stride, step),
                  'samples are strided by %s but the configuration list steps by %s' % (stride, step), m.loc(idl[0]))
        # start/stop indices come from the configuration list of the replica just read
        for nm in ('r_start_index', 'r_stop_index'):
            aps = [c for c in walk(f) if isinstance(c, ast.Call) and isinstance(c.func, ast.Attribute) and c.func.attr == 'append' and unparse(c.func.value) == nm]
            vals = sorted(unparse(a.args[0]) for a in aps)
            src = 'r_start' if 'start' in nm else 'r_stop'
            want = sorted(['0' if 'start' in nm else 'len(configlist[-1]) - 1', 'configlist[-1].index(%s[rep])' % src])
            ctx.check(rule, key + '-%s' % nm, vals == want, '%s = position of the requested configuration in the list of the same replica' % nm, '%s appended from %s' % (nm, vals))
    ctx.floor('range selections', n, 3)
    # ms5_xsf explicit list selection: sample appended iff its configuration number is wanted, together with the number
    f = m.func('read_ms5_xsf')
    t = m.text(f)
    ok = 'idl_wanted = cnfg in expected_idl[repnum]' in t and 'cnfgs[repnum].append(cnfg)' in t
    ap = [c for c in walk(f) if isinstance(c, ast.Call) and isinstance(c.func, ast.Attribute) and c.func.attr == 'append' and unparse(c.func.value) == 'cnfgs[repnum]']
    g = [unparse(x) for x, pol in guards_of(m, ap[0], stop=f) if pol and unparse(x) != 'True'] if ap else []
    samples_g = [[unparse(x) for x, pol in guards_of(m, c, stop=f) if pol and unparse(x) != 'True'] for c in walk(f) if isinstance(c, ast.Call) and isinstance(c.func, ast.Attribute) and c.func.attr == 'append'
                 and unparse(c.func.value).startswith(('realsamples[repnum][t]', 'imagsamples[repnum][t]'))]
    ok = ok and g == ['idl_wanted'] and all(x == ['idl_wanted'] for x in samples_g) and len(samples_g) == 2
    ctx.check(rule, 'input/openQCD.py:read_ms5_xsf#explicit-selection', ok, 'configuration number and samples are appended under the same condition', 'selection guards %s / %s' % (g, samples_g))
    hd = ctx.repo.mod('input.hadrons')
    f = hd.func('_get_files')
    t = hd.text(f)
    ok = 'filtered_files.append(line)' in t and 'cnfg_numbers.append(no)' in t and 'no = get_cnfg_number(line)' in t and 'Counter(list(idl)) != Counter(cnfg_numbers)' in t
    ctx.check(rule, 'input/hadrons.py:_get_files#selection', ok, 'file and configuration number are selected together; missing configurations raise', '_get_files differs')


def d4_layouts(ctx):
    rule = 'C17-D4'
    m = ctx.repo.mod('input.openQCD')
    n = 0
    for mn in ('input.openQCD', 'input.misc'):
        mm = ctx.repo.mod(mn)
        for q, f in mm.functions():
            for k, r in enumerate(binreads.analyse(mm, f)):
                if r.kind == 'unpack':
                    n += 1
                    if r.ok is False:
                        ctx.violated(rule, '%s.py:%s#layout(%s)@%d' % (mn.replace('.', '/'), q, unparse(r.size), k), r.detail, mm.loc(r.stmt))
    ctx.check(rule, 'readers#struct-sizes', True, '%d unpack sites: format size = read size' % n, '')
    ctx.floor('struct.unpack sites', n, 30)
    f = m.func('read_ms5_xsf')
    bi, bb = find_def(f, 'placesBI'), find_def(f, 'placesBB')
    ps = find_def(f, 'packstr')
    key = 'input/openQCD.py:read_ms5_xsf#offsets'
    if len(bi) != 1 or len(bb) != 1 or len(ps) != 1:
        ctx.unrec(rule, key, 'tables not found')
        return
    nbi, nbb = len(bi[0].value.elts), len(bb[0].value.elts)
    ok = unparse(ps[0].value) == "'=i' + 'd' * 2 * tmax * %d + 'd' * 2 * %d" % (nbi, nbb)
    ctx.check(rule, key + '-packstr', ok, 'pack string holds %d time dependent and %d time independent complex correlators, as the name tables' % (nbi, nbb), 'packstr %s vs %d/%d names' % (unparse(ps[0].value), nbi, nbb))
    tc = [s for s in statements(f) if isinstance(s, ast.Assign) and unparse(s.targets[0]) == 'tmpcorr']
    vals = sorted(unparse(s.value) for s in tc)
    want = sorted(['asascii[1 + 2 * tmax * placesBI.index(corr):1 + 2 * tmax * placesBI.index(corr) + 2 * tmax]',
                   'asascii[1 + 2 * tmax * len(placesBI) + 2 * placesBB.index(corr):1 + 2 * tmax * len(placesBI) + 2 * placesBB.index(corr) + 2]'])
    oks = vals == want
    if not oks:
        # bounds held in locals (computed once per file, per branch): resolved per branch of `corr not in placesBB` and compared as values
        oks = _xsf_slices_by_value(m, f, tc)
    ctx.check(rule, key + '-slices', bool(oks), 'correlator k starts at 1 + 2 tmax k (after the configuration number), boundary-to-boundary ones after all time dependent ones', 'slices %s' % vals)
    t = unparse(f)
    # the statements that distribute one record (tmpcorr) over realsamples / imagsamples are plain list code: they are evaluated on a
    # record of distinct tokens (lengths 2, 4, 6) and must put entry 2t into realsamples[rep][t] and entry 2t+1 into imagsamples[rep][t]
    dist = None
    for owner_blk in [b_ for n_ in walk(f) for fld_ in ('body', 'orelse') for b_ in [getattr(n_, fld_, None)] if isinstance(b_, list)]:
        idx_ = [i_ for i_, st_ in enumerate(owner_blk) if any(isinstance(y, ast.Name) and y.id == 'tmpcorr' and isinstance(y.ctx, ast.Store) for y in walk(st_))]
        rest = owner_blk[idx_[-1] + 1:] if idx_ else []
        if rest and any('realsamples' in unparse(st_) for st_ in rest) and any('imagsamples' in unparse(st_) for st_ in rest):
            cand = [st_ for st_ in rest if any(isinstance(y, ast.Name) and y.id in ('tmpcorr', 'corrres', 'realsamples', 'imagsamples') for y in walk(st_))
                    or isinstance(st_, (ast.For, ast.Assign, ast.AugAssign, ast.Expr))]
            if dist is None or sum(len(unparse(x_)) for x_ in cand) < sum(len(unparse(x_)) for x_ in dist):
                dist = cand         # the innermost block: the siblings that directly follow the extraction of the record
    if not dist or any(isinstance(y, (ast.Import, ast.ImportFrom, ast.While, ast.With, ast.Try, ast.Global, ast.Return, ast.Raise, ast.FunctionDef, ast.Lambda)) for st_ in dist for y in walk(st_)) \
            or any(isinstance(y, ast.Attribute) and y.attr not in ('append', 'extend') for st_ in dist for y in walk(st_)):
        ctx.unrec(rule, key + '-re-im', 'statements distributing a record over realsamples / imagsamples not found (or not plain list code)', m.loc(f))
    else:
        import copy as _copy
        bad = None
        safe = {'range': range, 'len': len, 'int': int, 'enumerate': enumerate, 'zip': zip, 'list': list, 'divmod': divmod, 'tuple': tuple, 'min': min, 'max': max}
        try:
            code = compile(ast.fix_missing_locations(ast.Module(body=[_copy.deepcopy(st_) for st_ in dist], type_ignores=[])), '<re-im>', 'exec')
            for n_t in (1, 2, 3):
                rec = ['tok%d' % i_ for i_ in range(2 * n_t)]
                env = {'__builtins__': safe, 'tmpcorr': list(rec), 'repnum': 1, 'realsamples': [[['old'] for _ in range(n_t)] for _ in range(2)], 'imagsamples': [[['old'] for _ in range(n_t)] for _ in range(2)]}
                exec(code, env)
                for tt in range(n_t):
                    if env['realsamples'][1][tt] != ['old', rec[2 * tt]] or env['imagsamples'][1][tt] != ['old', rec[2 * tt + 1]] or env['realsamples'][0][tt] != ['old']:
                        bad = (n_t, tt, env['realsamples'][1][tt][1:], env['imagsamples'][1][tt][1:])
            ctx.check(rule, key + '-re-im', bad is None, 'entry 2t of a record is the real part, entry 2t+1 the imaginary part of timeslice t (evaluated on records of 1..3 timeslices)',
                      'for a record of %d timeslices, timeslice %d receives real part %s and imaginary part %s instead of entries %d / %d of the record' % (bad + (2 * bad[1], 2 * bad[1] + 1)) if bad else '', m.loc(dist[0]))
        except Exception as ex_:
            ctx.unrec(rule, key + '-re-im', 'cannot evaluate the distribution statements: %r' % ex_, m.loc(dist[0]))
    ok = 'cnfg = asascii[0]' in t
    ctx.check(rule, key + '-cfg', ok, 'configuration number is the first item of the record', 'cfg extraction differs')


def d5_derivation(ctx):
    rule = 'C17-D5'
    m = ctx.repo.mod('input.openQCD')
    for q in ('read_rwms', '_extract_flowed_energy_density'):
        f = m.func(q)
        t = m.text(f)
        ok = "rep_names.append(truncated_entry[:idx] + '|' + truncated_entry[idx:])" in t and 'for entry in ls:' in t
        ctx.check(rule, 'input/openQCD.py:%s#names-from-files' % q, ok, 'replica names are derived from the file names in file-list order', 'name derivation differs')
        ok = "open(path + '/' + ls[rep], 'rb')" in t and 'for rep in range(replica):' in t
        ctx.check(rule, 'input/openQCD.py:%s#files-in-order' % q, ok, 'replica rep is read from ls[rep]', 'file loop differs')
        ok = 'configlist[-1].append($V)' in t and 'configlist[-1] = [item // diffmeas for item in configlist[-1]]' in t
        ctx.check(rule, 'input/openQCD.py:%s#config-numbers' % q, ok, 'configuration numbers = stored trajectory numbers / spacing, per replica', 'config number handling differs')
    f = m.func('_read_flow_obs')
    t = m.text(f)
    ok = "rep_names.append(ens_name + '|' + truncated_file[idx:].split('.')[0])" in t and 'for rep, file in enumerate(files):' in t and 'deltas.append(Q_top)' in t
    ctx.check(rule, 'input/openQCD.py:_read_flow_obs#names-from-files', ok, 'names and samples appended in the same loop over the files', 'derivation differs')
    f = m.func('read_rwms')
    t = m.text(f)
    ok = 'tmp_nfct *= np.mean(np.exp(-np.asarray(tmp_rw[j])))' in t and 'tmp_nfct *= np.mean(np.exp(-np.asarray(tmp_rw)))' in t and 'tmp_array[i].append(tmp_nfct)' in t
    ctx.check(rule, 'input/openQCD.py:read_rwms#reduction', ok, 'documented reduction: product over factors of the source average of exp(-x)', 'reduction differs')
    f = m.func('_read_flow_obs')
    t = m.text(f)
    ok = 'Q_sum.append([sum(item[current:current + tmax]) for current in range(0, len(item), tmax)])' in t and 'Q_sum.append([item[int(tmax / 2)]])' in t
    ctx.check(rule, 'input/openQCD.py:_read_flow_obs#reduction', ok, 'timeslice sum (or central timeslice) per flow time', 'reduction differs')
    ok = 'Q_top.append(Q_sum[i * (ncs + 1) + index_aim][0])' in t and 'Q_top.append(Q_sum[dtr_cnfg * i][index_aim])' in t and 'index_aim = round(c / cstepsize)' in t and 'index_aim = round(t_aim / eps / dn)' in t
    ctx.check(rule, 'input/openQCD.py:_read_flow_obs#flow-time', ok, 'selected flow time index', 'flow time selection differs')


def returns_sorted(mod, f):
    """path analysis: is the list returned by f numerically sorted on every return path?  parameters start unsorted.
    returns list of (return stmt, variable) that may be unsorted"""
    bad = []

    def numeric_key(call):
        k = kwarg(call, 'key')
        return k is not None and ('int(' in unparse(k) or 'get_cnfg_number' in unparse(k))

    def block(stmts, env):
        for st in stmts:
            if isinstance(st, ast.If):
                a, b = dict(env), dict(env)
                ra = block(st.body, a)
                rb = block(st.orelse, b)
                keys = set(a) | set(b)
                env.clear()
                for k in keys:
                    va = a.get(k, False) if not ra else None
                    vb = b.get(k, False) if not rb else None
                    vals = [v for v in (va, vb) if v is not None]
                    env[k] = all(vals) if vals else False
                if ra and rb:
                    return True
                continue
            if isinstance(st, (ast.For, ast.While)):
                for c in walk(st):
                    if isinstance(c, ast.Call) and isinstance(c.func, ast.Attribute) and c.func.attr in ('extend', 'append') and isinstance(c.func.value, ast.Name):
                        env[c.func.value.id] = False
                    if isinstance(c, ast.Assign) and isinstance(c.targets[0], ast.Name):
                        env[c.targets[0].id] = False
                continue
            if isinstance(st, ast.Assign) and len(st.targets) == 1 and isinstance(st.targets[0], ast.Name):
                v = st.value
                t = st.targets[0].id
                if isinstance(v, ast.Name):
                    env[t] = env.get(v.id, False)
                elif isinstance(v, ast.Call) and call_name(v) == 'sorted' and numeric_key(v):
                    env[t] = True
                elif isinstance(v, ast.Call) and call_name(v) == 'sort_names':
                    env[t] = True
                else:
                    env[t] = False
                continue
            if isinstance(st, ast.Expr) and isinstance(st.value, ast.Call) and isinstance(st.value.func, ast.Attribute) and st.value.func.attr == 'sort' and isinstance(st.value.func.value, ast.Name):
                env[st.value.func.value.id] = numeric_key(st.value)
                continue
            if isinstance(st, ast.Raise):
                return True
            if isinstance(st, ast.Return):
                if isinstance(st.value, ast.Name) and not env.get(st.value.id, False):
                    bad.append((st, st.value.id))
                return True
        return False
    env = {a.arg: False for a in f.args.args}
    block(f.body, env)
    return bad


def d6_sfcf_pairing(ctx):
    """read_sfcf_multi sorts the configuration numbers of a replica on their own (rep_idl.sort()); the samples follow the order of the
    file list, so the producer of that list must return it sorted by configuration number on every path"""
    rule = 'C17-D1'
    m = ctx.repo.mod('input.sfcf')
    f = m.func('read_sfcf_multi')
    ro = [x for x in reorder_statements(m, f) if x[0] == 'rep_idl']
    key = 'input/sfcf.py:read_sfcf_multi#rep_idl.sort()'
    if not ro:
        ctx.holds(rule, key, 'configuration numbers are not reordered on their own')
        return
    prod = m.func('_find_files')
    bad = returns_sorted(m, prod)
    ctx.check(rule, key, not bad, 'the configuration numbers are sorted on their own, and the file list they were read from is returned sorted by configuration number on every path of _find_files',
              'rep_idl is sorted on its own but _find_files may return `%s` unsorted (line %s): samples stay in the order of the given files while the configuration numbers are sorted' % (
                  bad[0][1] if bad else '', bad[0][0].lineno if bad else ''), m.loc(ro[0][2]))


RELABEL_GUARDS = {
    # function -> components every guard of the thermalisation relabelling must contain (confirmed by reading)
    'read_rwms': ['configlist[-1][0] > 1', 'diffmeas > 1'],
    '_extract_flowed_energy_density': ["kwargs.get('assume_thermalization', True)", 'configlist[-1][0] > 1'],
    '_read_flow_obs': ['configlist[-1][0] > 1'],
}


def d7_relabelling(ctx):
    """stored configuration numbers are shifted (`item - offset`) only under the confirmed conditions: in ms1 files with measurement
    spacing 1 the stored numbers are configuration numbers and must not be relabelled"""
    rule = 'C17-D5'
    m = ctx.repo.mod('input.openQCD')
    for q, comps in RELABEL_GUARDS.items():
        f = m.func(q)
        sh = [s_ for s_ in statements(f) if isinstance(s_, ast.Assign) and unparse(s_.targets[0]) == 'configlist[-1]' and 'offset' in unparse(s_.value)]
        key = 'input/openQCD.py:%s#relabelling-guard' % q
        if len(sh) != 1:
            ctx.unrec(rule, key, 'relabelling statement not found')
            continue
        g = ' and '.join(unparse(t) for t, pol in guards_of(m, sh[0], stop=f) if pol)
        missing = [c for c in comps if c not in g]
        ctx.check(rule, key, not missing, 'configuration numbers are shifted only when %s' % ' and '.join(comps),
                  'the shift of the stored configuration numbers is no longer conditional on %s (guard: %s): numbers stated in the file are relabelled' % (missing, g), m.loc(sh[0]))
        off = [s_ for s_ in statements(f) if isinstance(s_, ast.Assign) and unparse(s_.targets[0]) == 'offset']
        ctx.check(rule, key + '-offset', len(off) == 1 and unparse(off[0].value) == 'configlist[-1][0] - 1', 'offset = first number - 1', 'offset = %s' % [unparse(o.value) for o in off])


def _xsf_slices_by_value(m, f, tc):
    """every `tmpcorr = asascii[lo:hi]` resolved through locals that are bound once per branch of the test `corr (not) in placesBB`:
    time dependent branch lo = 1 + 2 tmax k_BI, hi = lo + 2 tmax; boundary branch lo = 1 + 2 tmax n_BI + 2 k_BB, hi = lo + 2."""
    import sympy as sp
    tmax, kbi, kbb, nbi = sp.symbols('tmax kBI kBB nBI', integer=True, nonnegative=True)

    def polarity(node):
        for t_, pol in guards_of(m, node, stop=f):
            u = unparse(t_)
            if u == 'corr not in placesBB':
                return 'BI' if pol else 'BB'
            if u == 'corr in placesBB':
                return 'BB' if pol else 'BI'
        return None
    defs = {}
    for s_ in statements(f):
        if isinstance(s_, ast.Assign) and len(s_.targets) == 1 and isinstance(s_.targets[0], ast.Name):
            defs.setdefault(s_.targets[0].id, []).append((polarity(s_), s_.value))

    def tr(e, br, depth=0):
        if depth > 6:
            raise Unrecognised('depth')
        if isinstance(e, ast.Constant) and isinstance(e.value, int):
            return sp.Integer(e.value)
        if isinstance(e, ast.Name):
            if e.id == 'tmax':
                return tmax
            cands = [v for p_, v in defs.get(e.id, []) if p_ in (br, None)]
            if len(cands) == 1:
                return tr(cands[0], br, depth + 1)
            raise Unrecognised('name %s' % e.id)
        if isinstance(e, ast.Call) and unparse(e) == 'placesBI.index(corr)':
            return kbi
        if isinstance(e, ast.Call) and unparse(e) == 'placesBB.index(corr)':
            return kbb
        if isinstance(e, ast.Call) and unparse(e) == 'len(placesBI)':
            return nbi
        if isinstance(e, ast.BinOp) and isinstance(e.op, (ast.Add, ast.Sub, ast.Mult)):
            a, b = tr(e.left, br, depth), tr(e.right, br, depth)
            return a + b if isinstance(e.op, ast.Add) else (a - b if isinstance(e.op, ast.Sub) else a * b)
        raise Unrecognised(unparse(e))
    want = {'BI': (1 + 2 * tmax * kbi, 1 + 2 * tmax * kbi + 2 * tmax), 'BB': (1 + 2 * tmax * nbi + 2 * kbb, 1 + 2 * tmax * nbi + 2 * kbb + 2)}
    seen = set()
    try:
        for s_ in tc:
            v = s_.value
            if not (isinstance(v, ast.Subscript) and unparse(v.value) == 'asascii' and isinstance(v.slice, ast.Slice) and v.slice.lower is not None and v.slice.upper is not None and v.slice.step is None):
                return False
            brs = [polarity(s_)] if polarity(s_) else ['BI', 'BB']
            for br in brs:
                lo, hi = tr(v.slice.lower, br), tr(v.slice.upper, br)
                if sp.simplify(lo - want[br][0]) != 0 or sp.simplify(hi - want[br][1]) != 0:
                    return False
                seen.add(br)
    except Unrecognised:
        return False
    return seen == {'BI', 'BB'}


def d8_rwms_factor_layout(ctx, m, rule='C17-D4'):
    """openQCD 1.4 / 1.6 reweighting files store, per factor, the sqn block followed by the lnr block (each nsrc doubles): the reader takes
    the second block of every factor.  A read that spans several factors has to keep that order: shape (nfct, 2, nsrc), entry [:, 1]."""
    f = m.func('read_rwms')
    n = 0
    for c in walk(f):
        if isinstance(c, ast.Call) and isinstance(c.func, ast.Attribute) and c.func.attr == 'reshape' and len(c.args) >= 3 and any('nfct' in unparse(a) for a in c.args) \
                and any('nsrc' in unparse(a) for a in c.args):
            n += 1
            shp = [unparse(a) for a in c.args]
            par = m.parents.get(c)
            sel = unparse(par.slice) if isinstance(par, ast.Subscript) and par.value is c else None
            ok = len(shp) == 3 and 'nfct' in shp[0] and shp[1] == '2' and 'nsrc' in shp[2] and sel in (':, 1', ':, 1, :', '(slice(None), 1)')
            ctx.check(rule, 'input/openQCD.py:read_rwms#factor-layout[%s]' % ', '.join(shp)[:40], ok, 'block of all factors read as (factor, sqn|lnr, source), lnr selected',
                      'the block of all factors is interpreted as shape (%s) with selection [%s]: the file stores sqn and lnr interleaved per factor, i.e. (nfct, 2, nsrc) and [:, 1]' % (', '.join(shp), sel), m.loc(c))
    per_factor = [lp for lp in walk(f) if isinstance(lp, ast.For) and 'nfct' in unparse(lp.iter)]
    reads = [c for lp in per_factor for c in walk(lp) if isinstance(c, ast.Call) and isinstance(c.func, ast.Attribute) and c.func.attr == 'read' and 'nsrc' in unparse(c)]
    ctx.check(rule, 'input/openQCD.py:read_rwms#factor-blocks', n > 0 or len(reads) == 2, 'two blocks of nsrc doubles are read per factor (sqn skipped, lnr used)',
              'the per-factor loop reads %d blocks of nsrc doubles and no whole-record layout is declared' % len(reads), m.loc(f))


def d7_timeslice_window(ctx, m, rule='C17-D4'):
    """flowed energy density: the average runs over the timeslices xmin <= x0 < tmax - xmin of every block of tmax entries: every slice
    whose bounds mention xmin and tmax has the extent tmax - 2 xmin (exclusive upper bound), whatever the offset of the block"""
    import sympy as sp
    f = m.func('_extract_flowed_energy_density')
    xmin, tmax, cur = sp.symbols('xmin tmax current', integer=True, nonnegative=True)

    def tr(e):
        if isinstance(e, ast.Name):
            return {'xmin': xmin, 'tmax': tmax}.get(e.id, sp.Symbol(e.id, integer=True))
        if isinstance(e, ast.Constant) and isinstance(e.value, int):
            return sp.Integer(e.value)
        if isinstance(e, ast.BinOp) and isinstance(e.op, (ast.Add, ast.Sub, ast.Mult)):
            a, b = tr(e.left), tr(e.right)
            return a + b if isinstance(e.op, ast.Add) else (a - b if isinstance(e.op, ast.Sub) else a * b)
        raise Unrecognised('bound %s' % unparse(e))
    n = 0
    for sl in [x for x in walk(f) if isinstance(x, ast.Slice) and x.lower is not None and x.upper is not None and x.step is None]:
        names = {y.id for y in ast.walk(sl) if isinstance(y, ast.Name)}
        if not {'xmin', 'tmax'} <= names:
            continue
        n += 1
        key = 'input/openQCD.py:_extract_flowed_energy_density#window[%s]' % unparse(sl)[:50]
        try:
            ext = sp.simplify(tr(sl.upper) - tr(sl.lower) - (tmax - 2 * xmin))
        except Unrecognised as e:
            ctx.unrec(rule, key, str(e), m.loc(sl.lower))
            continue
        ctx.check(rule, key, ext == 0, 'timeslices xmin .. tmax - xmin - 1 of the block (tmax - 2 xmin slices)',
                  'the slice %s covers tmax - 2 xmin %+d timeslices: one timeslice too many / few enters the average whenever xmin > 0' % (unparse(sl), int(ext)) if ext.is_number else 'extent differs by %s' % ext, m.loc(sl.lower))
    ctx.floor('timeslice windows of the flowed energy density', n, 1)


def run(ctx):
    ctx.rule('C17-D1', 'pairing discipline of names / samples / configuration lists')
    ctx.rule('C17-D2', 'directory listings are sorted numerically before positional use')
    ctx.rule('C17-D3', 'selection agreement of sample slices and configuration ranges')
    ctx.rule('C17-D4', 'struct layouts and offsets')
    ctx.rule('C17-D5', 'names / configuration numbers / reductions derived in the file loop')
    ctx.not_decided += ['that the numbers equal the stored ones for arbitrary files', 'hdf5 content']
    ctx.guarded('C17-D1', 'readers@pairing', d1_pairing, ctx)
    ctx.guarded('C17-D2', 'readers@listings', d2_listings, ctx)
    ctx.guarded('C17-D3', 'readers@selection', d3_selection, ctx)
    ctx.guarded('C17-D4', 'readers@layouts', d4_layouts, ctx)
    ctx.guarded('C17-D4', 'openQCD@timeslice-window', d7_timeslice_window, ctx, ctx.repo.mod('input.openQCD'))
    ctx.guarded('C17-D4', 'openQCD@rwms-factor-layout', d8_rwms_factor_layout, ctx, ctx.repo.mod('input.openQCD'))
    ctx.guarded('C17-D5', 'readers@derivation', d5_derivation, ctx)
    ctx.guarded('C17-D1', 'sfcf@pairing', d6_sfcf_pairing, ctx)
    ctx.guarded('C17-D5', 'openQCD@relabelling', d7_relabelling, ctx)
    from .. import unusedparams, leakedloop, aliasloop
    n_buf = ctx.guarded('C17-D5', 'input/openQCD.py@loop-buffers', aliasloop.stale_buffer, ctx, 'C17-D5', ctx.repo.mod('input.openQCD'),
                        ['read_rwms', '_extract_flowed_energy_density', '_read_flow_obs', 'read_ms5_xsf'])
    for mn_ in ('input.openQCD', 'input.hadrons', 'input.sfcf', 'input.misc', 'input.utils'):
        ctx.guarded('C17-D5', mn_ + '@charset-strip', aliasloop.charset_strip, ctx, 'C17-D5', ctx.repo.mod(mn_))
    ctx.rule('C17-D6', 'every accepted option is read (no silently ignored parameter); no loop variable read after its loop')
    for mn_ in ('input.openQCD', 'input.sfcf', 'input.hadrons', 'input.misc', 'input.utils'):
        ctx.guarded('C17-D6', mn_ + '@parameters', unusedparams.check, ctx, 'C17-D6', ctx.repo.mod(mn_))
        ctx.guarded('C17-D6', mn_ + '@loop-variables', leakedloop.check, ctx, 'C17-D6', ctx.repo.mod(mn_))
    ctx.rule('C17-D7', 'a search for the block / record that matches the selection examines every candidate before it reports "not found"')
    from .. import searchloop
    n_search = 0
    for mn_ in ('input.openQCD', 'input.sfcf', 'input.hadrons', 'input.misc', 'input.utils'):
        n_search += ctx.guarded('C17-D7', mn_ + '@search-loops', searchloop.check, ctx, 'C17-D7', ctx.repo.mod(mn_)) or 0
    ctx.floor('C17-D7 search tests (if ...: break in a loop)', n_search, 5)



SELFTEST = [
    ('fix-reverted-append-search', 'pyerrors/input/sfcf.py', '                    break\n        else:\n            raise ValueError("Did not find pattern\\n", pattern, "\\nin\\n", filename)\n',
     '                    break\n                else:\n                    raise ValueError("Did not find pattern\\n", pattern, "\\nin\\n", filename)\n', 'C17-D7'),
    ('benign-append-search-flag', 'pyerrors/input/sfcf.py', '        for linenumber, line in enumerate(chunk):\n            if line.startswith("gauge_name"):\n                gauge_line = linenumber\n',
     '        start_read = None\n        for linenumber, line in enumerate(chunk):\n            if line.startswith("gauge_name"):\n                gauge_line = linenumber\n', 'BENIGN'),
    ('flow-window-inclusive', 'pyerrors/input/openQCD.py', 'current + tmax - xmin])', 'current + tmax - xmin + 1])', 'C17-D4'),
    ('re-im-swapped', 'pyerrors/input/openQCD.py', '                        realsamples[repnum][t].append(corrres[0][t])', '                        realsamples[repnum][t].append(corrres[1][t])', 'C17-D4'),
    ('benign-re-im-strided', 'pyerrors/input/openQCD.py', '                    corrres = [[], []]\n                    for i in range(len(tmpcorr)):\n                        corrres[i % 2].append(tmpcorr[i])\n', '                    corrres = [tmpcorr[0::2], tmpcorr[1::2]]\n', 'BENIGN'),
    ('re-im-strided-off', 'pyerrors/input/openQCD.py', '                    corrres = [[], []]\n                    for i in range(len(tmpcorr)):\n                        corrres[i % 2].append(tmpcorr[i])\n', '                    corrres = [tmpcorr[0::2], tmpcorr[0::2]]\n', 'C17-D4'),
    ('suffix-by-rstrip', 'pyerrors/input/hadrons.py', 'n.replace(".h5", "")', 'n.rstrip(".h5")', 'C17-D5'),
    ('cosort-after-key-sorted', 'pyerrors/input/openQCD.py', "    names = [name for _, name in sorted(zip(files, names), key=lambda pair: pair[0])]\n    files = sorted(files)\n", "    files = sorted(files)\n    names = [name for _, name in sorted(zip(files, names), key=lambda pair: pair[0])]\n", 'C17-D1'),
    ('fix-reverted-rwms', 'pyerrors/input/openQCD.py', "        rep_names = names\n\n    print_err = 0", "        rep_names = names\n\n    rep_names = sort_names(rep_names)\n\n    print_err = 0", 'C17-D1'),
    ('fix-reverted-flow', 'pyerrors/input/openQCD.py', "        deltas.append(Q_top)\n\n    idl = [", "        deltas.append(Q_top)\n\n    rep_names = sort_names(rep_names)\n\n    idl = [", 'C17-D1'),
    ('fix-reverted-ms5', 'pyerrors/input/openQCD.py', "    names = [name for _, name in sorted(zip(files, names), key=lambda pair: pair[0])]\n", "    names = sorted(names)\n", 'C17-D1'),
    ('sfcf-user-files-unsorted', 'pyerrors/input/sfcf.py', "        files.sort(key=lambda x: int(re.findall(r'\\d+', x)[-1]))", "        sub_ls = sorted(files, key=lambda x: int(re.findall(r'\\d+', x)[-1]))", 'C17-D1'),
    ('relabel-guard-weakened', 'pyerrors/input/openQCD.py', "            if configlist[-1][0] > 1 and diffmeas > 1:", "            if configlist[-1][0] > 1:", 'C17-D5'),
    ('sfcf-silent-dropped', 'pyerrors/input/sfcf.py', "                          cfg_separator=cfg_separator, silent=silent, **kwargs)", "                          cfg_separator=cfg_separator, **kwargs)", 'C17-D6'),
    ('qtop-version-dropped', 'pyerrors/input/openQCD.py', "    return _read_flow_obs(path, prefix, c, dtr_cnfg=dtr_cnfg, version=version, obspos=0, **kwargs)", "    return _read_flow_obs(path, prefix, c, dtr_cnfg=dtr_cnfg, obspos=0, **kwargs)", 'C17-D6'),
    ('listing-unsorted', 'pyerrors/input/openQCD.py', "    files = sort_names(files)\n    return files", "    return files", 'C17-D2'),
    ('listing-lexicographic', 'pyerrors/input/misc.py', "        ls.sort(key=lambda x: int(re.findall(r'\\d+', x[len(prefix):])[0]))", "        ls.sort()", 'C17-D2'),
    ('hadrons-unsorted', 'pyerrors/input/hadrons.py', "    files.sort(key=get_cnfg_number)\n", "", 'C17-D2'),
    ('sfcf-cfg-unsorted', 'pyerrors/input/sfcf.py', "            sub_ls.sort(key=lambda x: int(x[3:]))\n", "", None),
    ('stop-exclusive', 'pyerrors/input/openQCD.py', "                deltas[k].append(tmp_array[k][r_start_index[rep]:r_stop_index[rep] + 1][::r_step])", "                deltas[k].append(tmp_array[k][r_start_index[rep]:r_stop_index[rep]][::r_step])", 'C17-D3'),
    ('stride-dropped', 'pyerrors/input/openQCD.py', "            samples[-1] = samples[-1][r_start_index[nrep]:r_stop_index[nrep] + 1][::r_step]", "            samples[-1] = samples[-1][r_start_index[nrep]:r_stop_index[nrep] + 1]", 'C17-D3'),
    ('range-stop', 'pyerrors/input/openQCD.py', "    idl = [range(int(configlist[rep][r_start_index[rep]]), int(configlist[rep][r_stop_index[rep]]) + 1, 1) for rep in range(len(deltas))]", "    idl = [range(int(configlist[rep][r_start_index[rep]]), int(configlist[rep][r_stop_index[rep]]), 1) for rep in range(len(deltas))]", 'C17-D3'),
    ('start-index-source', 'pyerrors/input/openQCD.py', "                    r_start_index.append(configlist[-1].index(r_start[rep]))\n                except ValueError:\n                    raise Exception('Config %d not in file with range [%d, %d]' % (\n                        r_start[rep], configlist[-1][0], configlist[-1][-1])) from None\n\n            if r_stop[rep] is None:\n                r_stop_index.append(len(configlist[-1]) - 1)", "                    r_start_index.append(r_start[rep] - 1)\n                except ValueError:\n                    raise Exception('Config %d not in file with range [%d, %d]' % (\n                        r_start[rep], configlist[-1][0], configlist[-1][-1])) from None\n\n            if r_stop[rep] is None:\n                r_stop_index.append(len(configlist[-1]) - 1)", 'C17-D3'),
    ('ms5-offset', 'pyerrors/input/openQCD.py', "tmpcorr = asascii[1 + 2 * tmax * placesBI.index(corr):1 + 2 * tmax * placesBI.index(corr) + 2 * tmax]", "tmpcorr = asascii[2 * tmax * placesBI.index(corr):2 * tmax * placesBI.index(corr) + 2 * tmax]", 'C17-D4'),
    ('ms5-selection', 'pyerrors/input/openQCD.py', "                if idl_wanted:\n                    cnfgs[repnum].append(cnfg)\n", "                cnfgs[repnum].append(cnfg)\n                if idl_wanted:\n", 'C17-D3'),
    ('reduction-sign', 'pyerrors/input/openQCD.py', "                            tmp_nfct *= np.mean(np.exp(-np.asarray(tmp_rw)))\n                            if print_err:", "                            tmp_nfct *= np.mean(np.exp(np.asarray(tmp_rw)))\n                            if print_err:", 'C17-D5'),
    ('name-derivation', 'pyerrors/input/openQCD.py', "            idx = truncated_entry.index('r')\n            rep_names.append(truncated_entry[:idx] + '|' + truncated_entry[idx:])\n    else:\n        rep_names = names", "            idx = truncated_entry.index('r')\n            rep_names.insert(0, truncated_entry[:idx] + '|' + truncated_entry[idx:])\n    else:\n        rep_names = names", 'C17-D5'),
]
