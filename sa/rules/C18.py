"""C18  Truncated measurement files never produce wrong numbers.

Decides only:
  D1 checked use of binary reads: every fp.read(k) whose bytes are used flows into struct.unpack(fmt, .) with calcsize(fmt) = k
     (symbolically; a short read then raises) or into a length / emptiness test; no handler swallows the resulting error
  D2 text records are complete before they are parsed: every float-parsing loop over the lines of a record is dominated by a
     raising completeness test on the same lines (sibling rule over the three sfcf layouts)
  D3 archives are parsed whole (decompress + whole-document parser, no recover mode, no swallowing handler)
"""
import ast

from ..srcmodel import Unrecognised, unparse, call_name, kwarg, walk, statements, guards_of, const
from .. import binreads

LEVEL = 'other'
EXPLANATION = ('dataflow classification of every binary read (size-checked unpack / length test / discarded) with symbolic struct.calcsize; dominance of text parsing loops by a raising '
               'completeness test; shape check of the archive readers')
LEVEL_TEXT = ('decides only: no byte of a binary record is used unless a size-checked struct.unpack (or a length test that ends the loop) sees it first, with format size = read size '
              'symbolically; record-reading code is not wrapped in a handler that swallows the error; the three sfcf text layouts test the completeness of a correlator block before parsing '
              'its floats; json.gz / xml.gz / csv.gz are decompressed and parsed as whole documents. The behaviour of gzip / rapidjson / lxml on every cut is their contract and not decided.')
TECHNIQUE = 'checked-use dataflow with symbolic struct sizes (read / readinto byte counts compared with the record size), dominance of parsing loops by raising guards, extent computed behind the block terminator, sibling rule'

READER_MODULES = ('input.openQCD', 'input.misc')


def d1_binary(ctx):
    rule = 'C18-D1'
    used = disc = 0
    for mn in READER_MODULES:
        m = ctx.repo.mod(mn)
        for q, f in m.functions():
            rs = binreads.analyse(m, f)
            for k, r in enumerate(rs):
                key = '%s.py:%s#read(%s)@%d' % (mn.replace('.', '/'), q, unparse(r.size), sum(1 for x in rs[:k] if unparse(x.size) == unparse(r.size)))
                if r.kind == 'discarded':
                    disc += 1
                    continue
                used += 1
                if r.kind == 'raw':
                    ctx.violated(rule, key, 'bytes returned by read(%s) are used without a size-checked struct.unpack or length test: a truncated record yields numbers assembled from a partial record (%s)' % (unparse(r.size), r.detail), m.loc(r.stmt))
                elif r.kind == 'unrecognised':
                    ctx.unrec(rule, key, r.detail, m.loc(r.stmt))
                elif r.ok is False:
                    ctx.violated(rule, key, r.detail, m.loc(r.stmt))
                elif r.kind == 'unpack' and r.ok is None:
                    ctx.unrec(rule, key, 'format size not decided: %s' % r.detail, m.loc(r.stmt))
                else:
                    ctx.holds(rule, key, '%s: short reads raise (struct.error) or end the loop' % r.kind, m.loc(r.stmt))
            # handlers that could swallow a struct.error while a record is half consumed
            if rs:
                for t in [s for s in statements(f) if isinstance(s, ast.Try)]:
                    body_reads = any(isinstance(c, ast.Call) and isinstance(c.func, ast.Attribute) and c.func.attr in ('read',) or
                                     (isinstance(c, ast.Call) and (m.dotted(c.func) or '') == 'struct.unpack') or
                                     (isinstance(c, ast.Call) and call_name(c) == '_read_array_openQCD2') for b in t.body for c in walk(b))
                    if not body_reads:
                        continue
                    for h in t.handlers:
                        reraises = any(isinstance(x, ast.Raise) for x in walk(h))
                        key = '%s.py:%s#handler@%s' % (mn.replace('.', '/'), q, unparse(h.type) if h.type else 'bare')
                        ctx.check(rule, key, reraises, 'handler re-raises', 'a handler (%s) around record reads swallows the error of a short read: the partial record is silently dropped or kept' % (
                            unparse(h.type) if h.type else 'bare except'), m.loc(h))
    ctx.floor('binary reads whose bytes are used', used, 30)
    ctx.info['binary_reads'] = {'used': used, 'discarded_skip_reads': disc}
    # loop head idiom: read(4) -> len(t) < 4 -> break, in every record loop
    n = 0
    for mn in READER_MODULES:
        m = ctx.repo.mod(mn)
        for q, f in m.functions():
            for w in [s for s in statements(f) if isinstance(s, ast.While) and unparse(s.test) == 'True']:
                first = w.body[0] if w.body else None
                if not (isinstance(first, ast.Assign) and isinstance(first.value, ast.Call) and isinstance(first.value.func, ast.Attribute) and first.value.func.attr == 'read'):
                    continue
                n += 1
                var = unparse(first.targets[0])
                nxt = w.body[1] if len(w.body) > 1 else None
                ok = isinstance(nxt, ast.If) and any(isinstance(x, ast.Break) for x in nxt.body) and (
                    unparse(nxt.test).replace('(', '').replace(')', '') in ('len%s < %s' % (var, unparse(first.value.args[0])), 'not %s' % var))
                ctx.check(rule, '%s.py:%s#record-loop-exit@%d' % (mn.replace('.', '/'), q, n), ok, 'the record loop ends only when the head read returns fewer bytes than requested',
                          'record loop exit test is %s after %s' % (unparse(nxt.test) if isinstance(nxt, ast.If) else None, unparse(first)), m.loc(w))
    ctx.floor('record loops', n, 5)


def d2_text(ctx):
    rule = 'C18-D2'
    m = ctx.repo.mod('input.sfcf')
    n = 0
    for q, f in m.functions():
        # loops / comprehensions that parse floats from lines
        parse_sites = []
        for c in walk(f):
            is_map = isinstance(c, ast.Call) and call_name(c) == 'map' and c.args and unparse(c.args[0]) == 'float'
            # the same conversion written as a comprehension over the fields of one line: [float(x) for x in line.split()]
            is_comp = isinstance(c, (ast.ListComp, ast.GeneratorExp)) and len(c.generators) == 1 and isinstance(c.elt, ast.Call) and unparse(c.elt.func) == 'float' \
                and isinstance(c.generators[0].iter, ast.Call) and call_name(c.generators[0].iter) == 'split'
            if is_map or is_comp:
                lp = m.parents.get(c)
                while lp is not None and not isinstance(lp, (ast.For, ast.ListComp, ast.GeneratorExp)):
                    lp = m.parents.get(lp)
                if isinstance(lp, (ast.ListComp, ast.GeneratorExp)):
                    # a comprehension over the lines is the same loop written as an expression
                    g0 = lp.generators[0]
                    lp = ast.copy_location(ast.For(target=g0.target, iter=g0.iter, body=[ast.copy_location(ast.Expr(value=lp.elt), lp)], orelse=[]), lp)
                    lp._synthetic_parent = m.parents.get(c)
                if lp is not None and not any(getattr(x, 'lineno', None) == lp.lineno and unparse(x.iter) == unparse(lp.iter) for x in parse_sites):
                    parse_sites.append(lp)
        for s in parse_sites:
            n += 1
            # the list of lines that is parsed
            it = s.iter
            if isinstance(it, ast.Call) and call_name(it) == 'enumerate':
                it = it.args[0]
            src = None
            if isinstance(it, ast.Subscript):
                src = unparse(it.value)
            elif isinstance(it, ast.Name):
                src = it.id
            elif isinstance(it, ast.Call) and call_name(it) == 'range':
                # index loop: find the list indexed inside
                for c in walk(s):
                    if isinstance(c, ast.Subscript) and isinstance(c.value, ast.Name) and unparse(c.slice) == unparse(s.target):
                        src = c.value.id
            key = 'input/sfcf.py:%s#complete-before-parse[%s]' % (q, src)
            if src is None:
                ctx.unrec(rule, key, 'cannot determine the parsed line list of %s' % unparse(s.iter), m.loc(s))
                continue
            # local alias: corr_lines = lines[a:b]
            sources = {src}
            for d in statements(f):
                if isinstance(d, ast.Assign) and isinstance(d.targets[0], ast.Name) and d.targets[0].id == src and isinstance(d.value, ast.Subscript):
                    sources.add(unparse(d.value.value))
            guards = []
            for r in statements(f):
                if isinstance(r, ast.Raise) and r.lineno < s.lineno:
                    for t, pol in guards_of(m, r, stop=f):
                        txt = unparse(t)
                        if any('len(%s)' % x in txt for x in sources) or any("%s[-1].endswith" % x in txt for x in sources):
                            guards.append(txt)
            # the test must guarantee that the LAST parsed line is complete: either it is checked to end with a newline, or a further
            # line is required to exist behind the block (the blank line that terminates a correlator)
            strong = None
            if guards:
                import sympy as sp_
                strong = False
                up = None
                for d in statements(f):
                    if isinstance(d, ast.Assign) and isinstance(d.targets[0], ast.Name) and d.targets[0].id == src and isinstance(d.value, ast.Subscript) and isinstance(d.value.slice, ast.Slice):
                        up = d.value.slice.upper
                if up is None and isinstance(it, ast.Subscript) and isinstance(it.slice, ast.Slice):
                    up = it.slice.upper
                for r in statements(f):
                    if isinstance(r, ast.Raise) and r.lineno < s.lineno:
                        for t, pol in guards_of(m, r, stop=f):
                            for c in ast.walk(t):
                                if isinstance(c, ast.Call) and isinstance(c.func, ast.Attribute) and c.func.attr == 'endswith' and '[-1]' in unparse(c.func.value):
                                    strong = True
                                if isinstance(c, ast.Compare) and len(c.ops) == 1 and up is not None:
                                    l_, r_ = c.left, c.comparators[0]
                                    big = None
                                    if isinstance(c.ops[0], ast.Gt) and unparse(r_).startswith('len('):
                                        big = l_
                                    elif isinstance(c.ops[0], ast.Lt) and unparse(l_).startswith('len('):
                                        big = r_
                                    if big is not None:
                                        names_ = {}

                                        def tx(e):
                                            if isinstance(e, ast.Name):
                                                return names_.setdefault(e.id, sp_.Symbol(e.id, integer=True))
                                            if isinstance(e, ast.Constant) and isinstance(e.value, int):
                                                return sp_.Integer(e.value)
                                            if isinstance(e, ast.BinOp) and isinstance(e.op, (ast.Add, ast.Sub)):
                                                return tx(e.left) + tx(e.right) if isinstance(e.op, ast.Add) else tx(e.left) - tx(e.right)
                                            raise Unrecognised(unparse(e))
                                        try:
                                            dlt = sp_.simplify(tx(big) - tx(up))
                                            if dlt.is_number and dlt >= 1:
                                                strong = True
                                        except Unrecognised:
                                            pass
            if guards and strong is False:
                ctx.violated(rule, key + '-last-line', 'the completeness test (%s) only guarantees that %s lines exist, not that the last one is complete: a file cut inside the last data line of the block '
                             'is parsed (the test must require one more line behind the block or a trailing newline)' % (guards[0], unparse(up) if up is not None else 'the parsed'), m.loc(s))
            elif guards:
                ctx.holds(rule, key + '-last-line', 'the test also guarantees that the last parsed line is complete', m.loc(s))
            ctx.check(rule, key, bool(guards), 'a raising completeness test (%s) precedes the parsing of the floats' % (guards[0] if guards else ''),
                      'the floats of a correlator block are parsed from `%s` without a preceding test that the block is complete: a file cut inside the block yields a '
                      'wrong (shortened) number or a shortened record without an error' % unparse(s.iter), m.loc(s))
    ctx.floor('float-parsing loops in sfcf.py', n, 3)
    # provenance of the evidence: the completeness tests look at the number of lines and at the trailing newline of the last
    # line; both prove something about the file only if the list of lines is the file's own (readlines / list(fp) / unchanged
    # iteration).  A comprehension that rewrites the lines (strip + '\n', split/join) manufactures the evidence.
    nsrc = 0
    for q, f in m.functions():
        for w in walk(f):
            if not isinstance(w, ast.With):
                continue
            handles = {it.optional_vars.id for it in w.items if isinstance(it.optional_vars, ast.Name) and isinstance(it.context_expr, ast.Call) and call_name(it.context_expr) == 'open'}
            if not handles:
                continue
            raw_names = set()
            for st in statements(w):
                if not isinstance(st, ast.Assign):
                    continue
                v = st.value
                if not any(isinstance(x, ast.Name) and x.id in handles for x in ast.walk(v)):
                    # a list derived from the raw lines: slices and elements keep the evidence, a comprehension / map that rebuilds the
                    # elements does not
                    if any(isinstance(x, ast.Name) and x.id in raw_names for x in ast.walk(v)) and isinstance(v, (ast.ListComp, ast.Call)) \
                            and not (isinstance(v, ast.ListComp) and isinstance(v.elt, ast.Name) and unparse(v.elt) == unparse(v.generators[0].target)) \
                            and not (isinstance(v, ast.Call) and call_name(v) in ('len', 'enumerate', 'list', 'range')):
                        if isinstance(v, ast.ListComp) and any(isinstance(x, ast.Name) and x.id in raw_names for x in ast.walk(v.generators[0].iter)) \
                                and any(isinstance(x, ast.BinOp) and isinstance(x.op, ast.Add) for x in ast.walk(v.elt)):
                            nsrc += 1
                            ctx.check(rule, 'input/sfcf.py:%s#raw-lines[%s]' % (q, unparse(st.targets[0])), False, '',
                                      'the lines read from the file are rewritten (`%s`) before the completeness tests see them: a trailing newline or the number of lines no longer proves that the last line was written completely' % unparse(v)[:80], m.loc(st))
                    continue
                if isinstance(st.targets[0], ast.Name):
                    raw_names.add(st.targets[0].id)
                nsrc += 1
                raw = False
                if isinstance(v, ast.Call) and isinstance(v.func, ast.Attribute) and v.func.attr in ('readlines', 'readline', 'read') and isinstance(v.func.value, ast.Name) and v.func.value.id in handles:
                    raw = True
                if isinstance(v, ast.Call) and call_name(v) == 'list' and len(v.args) == 1 and isinstance(v.args[0], ast.Name) and v.args[0].id in handles:
                    raw = True
                if isinstance(v, ast.ListComp) and len(v.generators) == 1 and isinstance(v.generators[0].iter, ast.Name) and v.generators[0].iter.id in handles \
                        and isinstance(v.elt, ast.Name) and unparse(v.elt) == unparse(v.generators[0].target):
                    raw = True
                key = 'input/sfcf.py:%s#raw-lines[%s]' % (q, unparse(st.targets[0]))
                ctx.check(rule, key, raw, 'the lines are the file\'s own (%s)' % unparse(v)[:40],
                          'the lines read from the file are rewritten (`%s`) before the completeness tests see them: a trailing newline or the number of lines no longer proves that the last line was written completely' % unparse(v)[:80], m.loc(st))
    ctx.floor('line sources in sfcf.py', nsrc, 3)


def d4_extent_and_readinto(ctx):
    """(a) sfcf: the temporal extent of a correlator block is fixed by the empty line that terminates it; a file without that line
    is cut, no fallback may compute the extent from what is left.  (b) binary readers: a buffer filled by readinto() keeps the bytes
    of the previous record when the read is short - the number of bytes read has to be compared with the record size."""
    rule = 'C18-D2'
    m = ctx.repo.mod('input.sfcf')
    f = m.func('_find_correlator')
    em = [s_ for s_ in statements(f) if isinstance(s_, ast.Assign) and unparse(s_.targets[0]) == 'end_match']
    ts = [s_ for s_ in statements(f) if isinstance(s_, ast.Assign) and unparse(s_.targets[0]) == 'T' and not isinstance(s_.value, ast.Constant)]
    n = 0
    for s_ in ts:
        gs = guards_of(m, s_, stop=f)
        neg_end = [unparse(t) for t, pol in gs if 'end_match' in unparse(t) and ((not pol and unparse(t) in ('end_match', 'end_match is not None')) or (pol and unparse(t) in ('not end_match', 'end_match is None')))]
        if em and any(s_.lineno > e_.lineno for e_ in em) and any(pol and "version == '0.0'" in unparse(t) for t, pol in gs) is False:
            n += 1
            uses = 'end_match' in unparse(s_.value)
            ctx.check(rule, 'input/sfcf.py:_find_correlator#extent[%s]' % unparse(s_.value)[:40], uses and not neg_end, 'the extent is counted up to the terminating empty line',
                      'the extent T is computed as `%s` on the path where the terminating empty line is missing (%s): a file cut inside the block is accepted with a shortened T' % (unparse(s_.value)[:70], neg_end), m.loc(s_))
    ctx.floor('extent computations behind the block terminator', n, 1)
    rule1 = 'C18-D1'
    oq = ctx.repo.mod('input.openQCD')
    k = 0
    for c in ast.walk(oq.tree):
        if isinstance(c, ast.Call) and isinstance(c.func, ast.Attribute) and c.func.attr == 'readinto':
            k += 1
            par = oq.parents.get(c)
            compared = isinstance(par, ast.Compare) and any(not (isinstance(x, ast.Constant) and x.value in (0, None)) for x in par.comparators)
            ctx.check(rule1, 'input/openQCD.py:%s#readinto' % oq.enclosing_qualname(c), compared, 'the number of bytes read is compared with the record size',
                      '`%s` is only tested for truth: a short last read leaves the rest of the reused buffer filled with the previous record and the unpacked numbers are a mix of two records' % unparse(c), oq.loc(c))
    ctx.info['readinto_sites'] = k


def d3b_single_member_archives(ctx):
    """A compressed archive is written in one piece.  A file that is opened for appending and compressed (gzip.open(..., 'a'), to_csv(...,
    mode='a', compression=...)) consists of several independent gzip members: cut exactly at a member boundary it is still a valid archive
    and the reader returns a shorter table without any error - wrong numbers from a partial file."""
    rule = 'C18-D3'
    n = 0
    for mn in ('input.json', 'input.dobs', 'input.pandas', 'input.misc', 'input.bdio', 'input.sfcf', 'input.openQCD', 'input.hadrons'):
        try:
            m = ctx.repo.mod(mn)
        except Exception:
            continue
        for c in walk(m.tree):
            if not isinstance(c, ast.Call):
                continue
            name = unparse(c.func)
            mode = kwarg(c, 'mode')
            if name in ('gzip.open', 'bz2.open', 'lzma.open') and mode is None and len(c.args) >= 2:
                mode = c.args[1]
            compressed = name in ('gzip.open', 'bz2.open', 'lzma.open') or (kwarg(c, 'compression') is not None and not (isinstance(kwarg(c, 'compression'), ast.Constant) and kwarg(c, 'compression').value in (None, 'infer')))
            if not compressed:
                continue
            n += 1
            key = '%s#archive-write[%s]' % (m.relpath.replace('pyerrors/', ''), unparse(c)[:50])
            appends = mode is not None and not (isinstance(mode, ast.Constant) and isinstance(mode.value, str) and 'a' not in mode.value)
            if appends:
                ctx.violated(rule, key, '`%s` writes a compressed file in append mode (mode=%s): the archive has several members, a copy that ends at a member boundary decompresses '
                             'without error and is read back as a shorter table' % (unparse(c)[:80], unparse(mode)), m.loc(c))
            else:
                ctx.holds(rule, key, 'compressed stream written / read as one member')
    ctx.floor('C18-D3 compressed opens / writes', n, 5)


def d3_archives(ctx):
    rule = 'C18-D3'
    js = ctx.repo.mod('input.json')
    f = js.func('load_json')
    t = js.text(f)
    ok = "gzip.open(fname, 'r')" in t and 'json.load(fin)' in t and 'json.loads(fin.read())' in t
    ctx.check(rule, 'input/json.py:load_json#whole-document', ok, 'the whole (decompressed) stream is handed to the JSON parser', 'load_json differs')
    ctx.check(rule, 'input/json.py:load_json#no-handler', not [s for s in statements(f) if isinstance(s, ast.Try)], 'no handler around decompression / parsing', 'load_json wraps parsing in try/except')
    dm = ctx.repo.mod('input.dobs')
    for q in ('read_pobs', 'read_dobs'):
        f = dm.func(q)
        t = dm.text(f)
        ok = "gzip.open(fname, 'r')" in t and 'content = fin.read()' in t
        ctx.check(rule, 'input/dobs.py:%s#whole-document' % q, ok, 'the whole decompressed content is read before parsing', '%s differs' % q)
        ctx.check(rule, 'input/dobs.py:%s#no-handler' % q, not [s for s in statements(f) if isinstance(s, ast.Try)], 'no handler around decompression / parsing', '%s wraps reading in try/except' % q)
    for q in ('read_pobs', 'import_dobs_string'):
        f = dm.func(q)
        calls = [c for c in walk(f) if isinstance(c, ast.Call) and (dm.dotted(c.func) or '').endswith('etree.fromstring')]
        ok = len(calls) == 1 and len(calls[0].args) == 1 and not calls[0].keywords
        ctx.check(rule, 'input/dobs.py:%s#strict-parser' % q, ok, 'strict XML parser (no recover mode / custom parser)', 'XML parsing is %s' % [unparse(c) for c in calls])
    rec = [c for c in ast.walk(dm.tree) if isinstance(c, ast.keyword) and c.arg == 'recover']
    ctx.check(rule, 'input/dobs.py#no-recover', not rec, 'no recovering XML parser anywhere in the module', 'recover= used')
    pm = ctx.repo.mod('input.pandas')
    f = pm.func('load_df')
    t = pm.text(f)
    ok = 'with gzip.open(fname) as f:' in t and 'pd.read_csv(f, keep_default_na=False)' in t
    ctx.check(rule, 'input/pandas.py:load_df#whole-document', ok, 'csv parsed from the gzip stream', 'load_df differs')
    ctx.check(rule, 'input/pandas.py:load_df#no-handler', not [s for s in statements(f) if isinstance(s, ast.Try)], 'no handler', 'load_df wraps reading in try/except')
    bad = [c for c in walk(f) if isinstance(c, ast.keyword) and c.arg in ('on_bad_lines', 'error_bad_lines')]
    ctx.check(rule, 'input/pandas.py:load_df#strict-csv', not bad, 'default (strict) csv parsing', 'lenient csv options %s' % [b.arg for b in bad])


def d5_short_read_leaves_record_loop(ctx):
    """A short read means the file ends inside a record.  The handler has to leave the RECORD loop (or raise): a `break` that sits in a
    for-loop nested in the record loop only leaves that inner loop, the record loop goes on reading at a misaligned / exhausted position and
    what it then drops or builds belongs to other (complete) records."""
    rule = 'C18-D1'
    n = 0
    for mn in ('input.openQCD', 'input.misc', 'input.bdio', 'input.hadrons', 'input.sfcf'):
        try:
            m = ctx.repo.mod(mn)
        except Exception:
            continue
        for q, f in m.functions():
            for node in walk(f):
                if m.enclosing_func(node) is not f or not (isinstance(node, ast.If) and node.body and isinstance(node.body[-1], ast.Break)):
                    continue
                if not any(isinstance(c, ast.Call) and call_name(c) == 'len' for c in ast.walk(node.test)):
                    continue
                loops = []
                qn = m.parents.get(node)
                while qn is not None and qn is not f:
                    if isinstance(qn, (ast.For, ast.While)):
                        loops.append(qn)
                    qn = m.parents.get(qn)
                if not loops:
                    continue
                n += 1
                key = '%s:%s#short-read-break[%s]' % (m.relpath.replace('pyerrors/', ''), q, unparse(node.test)[:30])
                outer_while = [lp for lp in loops[1:] if isinstance(lp, ast.While)]
                if isinstance(loops[0], ast.For) and outer_while:
                    ctx.violated(rule, key, 'the short-read handler `if %s: ... break` leaves only the inner `for %s in %s`; the record loop `while %s` goes on after an incomplete '
                                 'record: the following reads return nothing and complete configurations are dropped or built from nothing' % (
                                     unparse(node.test), unparse(loops[0].target), unparse(loops[0].iter)[:30], unparse(outer_while[0].test)), m.loc(node))
                else:
                    ctx.holds(rule, key, 'the short-read handler leaves the record loop')
    ctx.floor('C18-D1 short-read handlers that break', n, 3)


def run(ctx):
    ctx.rule('C18-D1', 'checked use of binary reads (symbolic struct sizes), no swallowing handler')
    ctx.rule('C18-D2', 'text records complete before parsing')
    ctx.rule('C18-D3', 'archives parsed whole, strictly')
    ctx.not_decided += ['behaviour of gzip / rapidjson / lxml / pandas on every possible cut (library contracts)', 'hdf5 files']
    ctx.guarded('C18-D1', 'readers@binary', d1_binary, ctx)
    ctx.guarded('C18-D1', 'readers@short-read-exit', d5_short_read_leaves_record_loop, ctx)
    ctx.guarded('C18-D2', 'sfcf@text', d2_text, ctx)
    ctx.guarded('C18-D2', 'input@extent-and-readinto', d4_extent_and_readinto, ctx)
    ctx.guarded('C18-D3', 'archives', d3_archives, ctx)
    ctx.guarded('C18-D3', 'archives@single-member', d3b_single_member_archives, ctx)


SELFTEST = [
    ('extent-fallback', 'pyerrors/input/sfcf.py', "                T = content[match.start():].count('\\n', 0, end_match.start()) - 4 - b2b", "                if end_match is None:\n                    T = content[match.start():].count('\\n') - 4 - b2b\n                else:\n                    T = content[match.start():].count('\\n', 0, end_match.start()) - 4 - b2b", 'C18-D2'),
    ('lines-rewritten-before-completeness-test', 'pyerrors/input/sfcf.py', "        content = fp.readlines()", "        content = [ln.strip() + '\\n' for ln in fp.readlines()]", 'C18-D2'),
    ('benign-list-fp', 'pyerrors/input/sfcf.py', "        content = fp.readlines()", "        content = list(fp)", 'BENIGN'),
    ('fix-reverted-o', 'pyerrors/input/sfcf.py', "                if len(corr_lines) < T or not corr_lines[-1].endswith('\\n'):\n                    raise Exception(\"EOF before end of correlator data! Maybe \" + file + \" is corrupted?\")\n", "", 'C18-D2'),
    ('compact-check-removed', 'pyerrors/input/sfcf.py', "            if (start_read + T + 1 > len(lines)):\n                raise Exception(\"EOF before end of correlator data! Maybe \" + rep_path + cfg_file + \" is corrupted?\")\n", "", 'C18-D2'),
    ('raw-bytes', 'pyerrors/input/openQCD.py', "                    t = fp.read(8 * tmax * (nn + 1))\n                    # unpack the array of Qtops,\n                    # on each timeslice t=0,...,tmax-1 and the\n                    # measurement number in = 0...nn (see README.qcd1)\n                    tmpd = struct.unpack('d' * tmax * (nn + 1), t)", "                    t = fp.read(8 * tmax * (nn + 1))\n                    tmpd = tuple(np.frombuffer(t, dtype=np.float64))", 'C18-D1'),
    ('size-mismatch', 'pyerrors/input/openQCD.py', "            t = fp.read(12)\n            header = struct.unpack('iii', t)", "            t = fp.read(16)\n            header = struct.unpack('iii', t[:12])", 'C18-D1'),
    ('fmt-mismatch', 'pyerrors/input/openQCD.py', "                            tmp_rw = struct.unpack('d' * nsrc[i], t)", "                            tmp_rw = struct.unpack('f' * nsrc[i], t[:4 * nsrc[i]])", 'C18-D1'),
    ('swallow-error', 'pyerrors/input/openQCD.py', "                nc = struct.unpack('i', t)[0]\n                configlist[-1].append(nc)\n\n                t = fp.read(8 * tmax * (nn + 1))\n                if kwargs.get('plaquette'):\n                    if nc % dtr_read == 0:\n                        Ysl.append(struct.unpack('d' * tmax * (nn + 1), t))", "                nc = struct.unpack('i', t)[0]\n                configlist[-1].append(nc)\n\n                t = fp.read(8 * tmax * (nn + 1))\n                if kwargs.get('plaquette'):\n                    if nc % dtr_read == 0:\n                        try:\n                            Ysl.append(struct.unpack('d' * tmax * (nn + 1), t))\n                        except struct.error:\n                            break", 'C18-D1'),
    ('loop-exit-weak', 'pyerrors/input/openQCD.py', "                t = fp.read(4)\n                if len(t) < 4:\n                    break\n                config_no = struct.unpack('i', t)[0]", "                t = fp.read(4)\n                if len(t) < 1:\n                    break\n                config_no = struct.unpack('i', t.ljust(4, b'\\0'))[0]", 'C18-D1'),
    ('ms5-chunk', 'pyerrors/input/openQCD.py', "            chunksize = 4 + (8 * 2 * tmax * 10) + (8 * 2 * 2)", "            chunksize = 4 + (8 * 2 * tmax * 10) + (8 * 2)", 'C18-D1'),
    ('type-table', 'pyerrors/input/openQCD.py', "    elif size == 16:\n        types = 'dd'", "    elif size == 16:\n        types = 'd'", 'C18-D1'),
    ('json-handler', 'pyerrors/input/json.py', "        with gzip.open(fname, 'r') as fin:\n            d = json.load(fin)", "        try:\n            with gzip.open(fname, 'r') as fin:\n                d = json.load(fin)\n        except EOFError:\n            d = {'obsdata': []}", 'C18-D3'),
    ('xml-recover', 'pyerrors/input/dobs.py', "    root = et.fromstring(content)\n\n    _check(root.tag == 'OBSERVABLES')", "    root = et.fromstring(content, parser=et.XMLParser(recover=True))\n\n    _check(root.tag == 'OBSERVABLES')", 'C18-D3'),
    ('csv-lenient', 'pyerrors/input/pandas.py', "            re_import = pd.read_csv(f, keep_default_na=False)", "            re_import = pd.read_csv(f, keep_default_na=False, on_bad_lines='skip')", 'C18-D3'),
    ('compact-check-weakened', 'pyerrors/input/sfcf.py', "            if (start_read + T + 1 > len(lines)):", "            if (start_read + T > len(lines)):", 'C18-D2'),
    ('benign-check-style', 'pyerrors/input/sfcf.py', "            if (start_read + T + 1 > len(lines)):", "            if len(lines) < start_read + T + 1:", 'BENIGN'),
]
