"""C19  Printed value(error) strings and scalar views agree with value and error.

Decides only:
  D1 in every branch of _format_uncertainty the number of decimals applied to the value equals the decimals implied for the error
  D2 the prior parser _extract_val_and_dval scales a dot-free error by 10^-(digits after the point), the inverse of branch 1
  D3 format flags only ever prepend one character
  D4 scalar views: comparisons use self.value with the operator their name denotes, __float__, is_zero_within_error, plottable,
     no-error case prints the plain value, CObs formats both parts
"""
import ast
import re

import sympy as sp

from ..srcmodel import Unrecognised, unparse, call_name, kwarg, walk, statements, guards_of, const
from .C07 import find_def

LEVEL = 'other'
EXPLANATION = ('the format specifications of the three return branches of _format_uncertainty are parsed (str.format / f-string ASTs) and the decimals of value and error are compared '
               'symbolically under the branch guard; the prior parser is compared with the inverse scaling; scalar views are checked against the operator their name denotes')
LEVEL_TEXT = ('decides only: value and error are printed to the same decimal place in all three magnitude branches (symbolic in the exponent and the significance), the error mantissa scaling, '
              'the inverse scaling of the prior parser, prefix-only flags, and that comparisons/float/zero-test/plottable use exactly value and dvalue. Rounding carries of the float formatter are not decided.')
TECHNIQUE = 'AST analysis of format specifications with sympy comparison of decimal counts; small-domain evaluation of the extracted pure string functions (prior parser on printable strings, __format__ with a recording stub); operator-name agreement rules'

F, S = sp.Symbol('fexp', integer=True), sp.Symbol('significance', integer=True, positive=True)


def spec_decimals(mod, spec_node, env):
    """decimals of a format spec JoinedStr/Constant like '.{D}f' or '1.{D}f' -> sympy"""
    parts = spec_node.values if isinstance(spec_node, ast.JoinedStr) else [spec_node]
    txt = ''
    expr = None
    for p in parts:
        if isinstance(p, ast.Constant):
            txt += p.value
        elif isinstance(p, ast.FormattedValue):
            txt += '{}'
            expr = p.value
    if not txt.endswith('f') or '.' not in txt:
        raise Unrecognised('format spec %r' % txt)
    dec = txt[txt.index('.') + 1:-1]
    if dec == '{}':
        return tr_int(mod, expr, env)
    return sp.Integer(int(dec))


def tr_int(mod, e, env):
    if isinstance(e, ast.Name):
        if e.id in env:
            return env[e.id]
        raise Unrecognised('name %s' % e.id)
    if isinstance(e, ast.Constant) and isinstance(e.value, int):
        return sp.Integer(e.value)
    if isinstance(e, ast.UnaryOp) and isinstance(e.op, ast.USub):
        return -tr_int(mod, e.operand, env)
    if isinstance(e, ast.BinOp):
        a, b = tr_int(mod, e.left, env), tr_int(mod, e.right, env)
        return {ast.Add: lambda: a + b, ast.Sub: lambda: a - b, ast.Mult: lambda: a * b}[type(e.op)]()
    if isinstance(e, ast.Call) and call_name(e) == 'int' and len(e.args) == 1:
        return tr_int(mod, e.args[0], env)       # fexp is integer valued (floor of log10)
    if isinstance(e, ast.Call) and call_name(e) == 'max' and len(e.args) == 2:
        return sp.Max(tr_int(mod, e.args[0], env), tr_int(mod, e.args[1], env))
    raise Unrecognised('integer expression %s' % unparse(e))


def d1_decimals(ctx, obs):
    rule = 'C19-D1'
    f = obs.func('_format_uncertainty')
    p = [a.arg for a in f.args.args]
    val, dval, sig = p[0], p[1], p[2]
    env = {sig: S}
    fd = find_def(f, 'fexp')
    ok = len(fd) == 1 and unparse(fd[0].value) == 'np.floor(np.log10(%s))' % dval
    ctx.check(rule, 'obs.py:_format_uncertainty#fexp', ok, 'fexp = floor(log10(error))', 'fexp = %s' % [unparse(s.value) for s in fd])
    env['fexp'] = F
    # the digits of a formatted number are used whole: cutting characters off a rounded decimal string changes its magnitude
    # ('100' -> '10' after a rounding carry) unless the decimal place is moved as well
    def _is_formatted(n, depth=0):
        if isinstance(n, ast.JoinedStr):
            return True
        if isinstance(n, ast.Call) and isinstance(n.func, ast.Attribute) and n.func.attr == 'format':
            return True
        if isinstance(n, ast.Call) and call_name(n) in ('str', 'repr', 'format'):
            return True
        if isinstance(n, ast.BinOp) and isinstance(n.op, ast.Mod) and isinstance(n.left, ast.Constant) and isinstance(n.left.value, str):
            return True
        if isinstance(n, ast.Name) and depth < 3:
            return any(_is_formatted(d.value, depth + 1) for d in find_def(f, n.id))
        return False
    cuts = [n for n in walk(f) if isinstance(n, ast.Subscript) and isinstance(n.slice, ast.Slice) and _is_formatted(n.value)]
    ctx.check(rule, 'obs.py:_format_uncertainty#digits-whole', not cuts, 'no formatted number is cut by a slice', 'the formatted number `%s` is cut by a slice: after a rounding carry (9.96 -> "100") the cut digits encode an error ten times too small' % (unparse(cuts[0]) if cuts else ''), obs.loc(cuts[0]) if cuts else obs.loc(f))
    rets = [s for s in statements(f) if isinstance(s, ast.Return)]
    seen = set()
    for r in rets:
        g = guards_of(obs, r, stop=f)
        gt = [(unparse(t), pol) for t, pol in g]
        v = r.value
        if unparse(v) == 'str(%s)' % val:
            okg = any(pol and ('%s == 0.0' % dval) in t and 'isfinite' in t for t, pol in gt)
            ctx.check('C19-D4', 'obs.py:_format_uncertainty#no-error', okg, 'zero or non-finite error prints the plain value', 'plain value printed under %s' % gt, obs.loc(r))
            continue
        # branch classification by the guard on fexp
        branch = None
        for t, pol in g:
            if isinstance(t, ast.Compare) and unparse(t.left) == 'fexp' and const(t.comparators[0]) == 0:
                if isinstance(t.ops[0], ast.Lt) and pol:
                    branch = 'fexp<0'
                elif isinstance(t.ops[0], ast.Eq) and pol:
                    branch = 'fexp=0'
        if branch is None and all(not pol for t, pol in g if 'fexp' in unparse(t)) and any('fexp' in unparse(t) for t, pol in g):
            branch = 'fexp>0'
        key = 'obs.py:_format_uncertainty#decimals[%s]' % branch
        seen.add(branch)
        try:
            if isinstance(v, ast.Call) and isinstance(v.func, ast.Attribute) and v.func.attr == 'format' and isinstance(v.func.value, ast.Constant):
                # '{:{form}}({:1.0f})'.format(value, dvalue * 10 ** (E), form='.' + str(D) + 'f')
                tmpl = v.func.value.value
                form = kwarg(v, 'form')
                if tmpl != '{:{form}}({:1.0f})' or form is None or len(v.args) != 2 or unparse(v.args[0]) != val:
                    raise Unrecognised('template %r' % tmpl)
                # form = '.' + str(D) + 'f'
                if not (isinstance(form, ast.BinOp) and isinstance(form.left, ast.BinOp) and const_str(form.left.left) == '.' and const_str(form.right) == 'f'
                        and isinstance(form.left.right, ast.Call) and call_name(form.left.right) == 'str'):
                    raise Unrecognised('form %s' % unparse(form))
                Dv = tr_int(obs, form.left.right.args[0], env)
                # error mantissa: dvalue * 10 ** E  printed with 0 decimals -> decimals of the error = E
                e = v.args[1]
                if not (isinstance(e, ast.BinOp) and isinstance(e.op, ast.Mult) and unparse(e.left) == dval and isinstance(e.right, ast.BinOp) and isinstance(e.right.op, ast.Pow) and const(e.right.left) == 10):
                    raise Unrecognised('error mantissa %s' % unparse(e))
                De = tr_int(obs, e.right.right, env)
                want = -F + S - 1
            elif isinstance(v, ast.JoinedStr):
                fv = [x for x in v.values if isinstance(x, ast.FormattedValue)]
                if len(fv) != 2 or unparse(fv[0].value) != val:
                    raise Unrecognised('f-string %s' % unparse(v))
                lits = [x.value for x in v.values if isinstance(x, ast.Constant)]
                if lits != ['(', ')']:
                    raise Unrecognised('f-string literals %s' % lits)
                Dv = spec_decimals(obs, fv[0].format_spec, env)
                e = fv[1].value
                if unparse(e) == dval:
                    De = spec_decimals(obs, fv[1].format_spec, env)
                elif isinstance(e, ast.BinOp) and isinstance(e.op, ast.Mult) and unparse(e.left) == dval and isinstance(e.right, ast.BinOp) and isinstance(e.right.op, ast.Pow) and const(e.right.left) == 10:
                    # scaled error mantissa printed with k decimals: the error is printed to E + k decimal places
                    De = tr_int(obs, e.right.right, env) + spec_decimals(obs, fv[1].format_spec, env)
                else:
                    raise Unrecognised('f-string %s' % unparse(v))
                want = -F + S - 1 if branch == 'fexp<0' else (S - 1 if branch == 'fexp=0' else sp.Max(0, S - F - 1))
            else:
                raise Unrecognised('return %s' % unparse(v))
        except Unrecognised as ex:
            ctx.unrec(rule, key, str(ex), obs.loc(r))
            continue
        same = sp.simplify(Dv - De) == 0
        ctx.check(rule, key, same, 'value and error are printed with the same number of decimals (%s)' % Dv,
                  'value is printed with %s decimals but the error with %s' % (Dv, De), obs.loc(r))
        okw = sp.simplify(Dv - want) == 0
        ctx.check(rule, key + '-significance', okw, 'decimals = %s: the error shows `significance` digits' % want, 'decimals are %s, for `significance` significant digits of the error %s are needed' % (Dv, want), obs.loc(r))
    ctx.check(rule, 'obs.py:_format_uncertainty#branches', seen >= {'fexp<0', 'fexp=0', 'fexp>0'}, 'three magnitude branches', 'branches found: %s' % sorted(map(str, seen)))
    # validation of significance
    rs = [unparse(guards_of(obs, s, stop=f)[0][0]) for s in statements(f) if isinstance(s, ast.Raise)]
    ctx.check(rule, 'obs.py:_format_uncertainty#significance-checks', any('isinstance(%s, int)' % sig in x for x in rs) and any('%s < 1' % sig in x for x in rs), 'non-integer / non-positive significance rejected', 'guards %s' % rs)


def const_str(e):
    return e.value if isinstance(e, ast.Constant) and isinstance(e.value, str) else None


def d1b_format_evaluated(ctx, obs, rule='C19-D1'):
    """_format_uncertainty is a pure function of three numbers: the extracted function is evaluated (numpy for floor / log10 / isfinite)
    on a grid of values, errors (mantissas next to the rounding boundaries, 13 decades) and significances 1..4.  Required of every
    printed `v(e)`: the unit of the last printed digit is at most the one that shows the error to the requested significant digits,
    and reading back v and e recovers value and error within half of that unit."""
    import copy as _copy
    import math as _math
    f = obs.func('_format_uncertainty')
    key = 'obs.py:_format_uncertainty#evaluated'
    if any(isinstance(x, (ast.Import, ast.ImportFrom, ast.Global, ast.While, ast.With, ast.Try, ast.Lambda)) for x in walk(f)):
        ctx.unrec(rule, key, 'not a plain formatting function: not evaluated', obs.loc(f))
        return
    try:
        import numpy as _np
    except Exception as ex_:
        ctx.unrec(rule, key, 'numpy unavailable: %r' % ex_)
        return
    safe = {'str': str, 'int': int, 'float': float, 'isinstance': isinstance, 'max': max, 'min': min, 'abs': abs, 'round': round, 'len': len, 'format': format, 'TypeError': TypeError,
            'ValueError': ValueError, 'bool': bool}
    try:
        g = _copy.deepcopy(f)
        g.decorator_list = []
        ns = {'__builtins__': safe, 'np': _np}
        exec(compile(ast.fix_missing_locations(ast.Module(body=[g], type_ignores=[])), '<format_uncertainty>', 'exec'), ns)
        fn = ns[f.name]
    except Exception as ex_:
        ctx.unrec(rule, key, 'cannot evaluate: %r' % ex_, obs.loc(f))
        return
    wrong = []
    count = 0
    for sig in (1, 2, 3, 4):
        for dec in range(-6, 7):
            for man in (1.0, 1.04, 1.5, 2.5, 4.99, 9.4, 9.6, 9.96, 9.996):
                dv = man * 10.0 ** dec
                for val in (0.0, 1.2345678, -31.41592653, 0.000271828, 98765.4321):
                    count += 1
                    try:
                        out = fn(val, dv, sig)
                    except NameError as ex_:
                        ctx.unrec(rule, key, 'cannot evaluate: %r' % ex_, obs.loc(f))
                        return
                    except Exception as ex_:
                        wrong.append((val, dv, sig, 'raised %r' % ex_))
                        continue
                    m_ = re.fullmatch(r'\s*(-?\d+(?:\.(\d+))?)\((\d+(?:\.\d+)?)\)', out) if isinstance(out, str) else None
                    if not m_:
                        wrong.append((val, dv, sig, 'unparsable %r' % (out,)))
                        continue
                    d = len(m_.group(2) or '')
                    e_txt = m_.group(3)
                    e_print = float(e_txt) if '.' in e_txt else float(e_txt) * 10.0 ** (-d)
                    v_print = float(m_.group(1))
                    need = max(0, sig - 1 - _math.floor(_math.log10(dv) + 1e-12))
                    unit = 10.0 ** (-d)
                    if d < need:
                        wrong.append((val, dv, sig, '%s shows the error to fewer than %d significant digits' % (out, sig)))
                    elif abs(e_print - dv) > 0.5 * unit * (1 + 1e-6) + 1e-12 * dv or abs(v_print - val) > 0.5 * unit * (1 + 1e-6) + 1e-12 * abs(val):
                        wrong.append((val, dv, sig, '%s does not recover value / error within half a unit of the last digit' % out))
    ctx.check(rule, key, not wrong, 'every printed value(error) shows the error to the requested significant digits and recovers both numbers within half a unit of the last digit (%d cases)' % count,
              '_format_uncertainty(%r, %r, %d): %s%s' % (wrong[0] + (' (%d more cases)' % (len(wrong) - 1) if len(wrong) > 1 else '',)) if wrong else '', obs.loc(f))
    ctx.info['format_uncertainty_cases'] = count


def d2_prior(ctx, rule='C19-D2'):
    """The prior parser is pure string arithmetic.  The extracted function (own statements, module-level regular-expression
    constants it names, restricted builtins, `re`) is evaluated on the strings _format_uncertainty can print - signed values,
    with or without decimals, error mantissa without a point (to be scaled by the decimals of the value) or with one."""
    import copy as _copy
    import re as _re
    m = ctx.repo.mod('fits')
    f = m.func('_extract_val_and_dval')
    key = 'fits.py:_extract_val_and_dval'
    used = {x.id for x in ast.walk(f) if isinstance(x, ast.Name)}
    consts = [x for x in m.tree.body if isinstance(x, ast.Assign) and len(x.targets) == 1 and isinstance(x.targets[0], ast.Name) and x.targets[0].id in used
              and (isinstance(x.value, ast.Constant) or (isinstance(x.value, ast.Call) and call_name(x.value) in ('re.compile', 'compile') and all(isinstance(a, ast.Constant) or (isinstance(a, ast.Attribute) and unparse(a).startswith('re.')) or isinstance(a, ast.BinOp) for a in x.value.args)))]
    bad = [type(x).__name__ for x in ast.walk(f) if isinstance(x, (ast.Import, ast.ImportFrom, ast.Global, ast.Nonlocal, ast.While, ast.With))]
    if bad or len(f.args.args) != 1:
        ctx.unrec(rule, key, 'parser is not plain string arithmetic (%s): not evaluated' % bad)
        return
    safe = {'float': float, 'int': int, 'len': len, 'str': str, 'abs': abs, 'min': min, 'max': max, 'ValueError': ValueError, 'Exception': Exception, 'TypeError': TypeError, 'IndexError': IndexError,
            'isinstance': isinstance, 'range': range, 'any': any, 'all': all, 'tuple': tuple, 'list': list, 'round': round, 'pow': pow, 'bool': bool, 'enumerate': enumerate, 'zip': zip, 'sum': sum}
    g = _copy.deepcopy(f)
    g.decorator_list = []
    try:
        ns = {'__builtins__': safe, 're': _re, 'compile': _re.compile}
        exec(compile(ast.fix_missing_locations(ast.Module(body=[_copy.deepcopy(c) for c in consts] + [g], type_ignores=[])), '<prior>', 'exec'), ns)
        fn = ns[f.name]
    except Exception as ex_:
        ctx.unrec(rule, key, 'cannot evaluate the parser: %r' % ex_)
        return
    vals = ['0', '1', '12', '305', '0.5', '1.5', '0.548', '12.75', '3.10', '0.0021', '100.0', '7.000']
    errs = ['1', '3', '23', '15', '50', '120', '1.2', '0.5', '10.0', '2.50']
    wrong = []
    count = 0
    for sign in ('', '-'):
        for v in vals:
            for e_ in errs:
                st = '%s%s(%s)' % (sign, v, e_)
                count += 1
                wv = float(sign + v)
                dec = len(v.partition('.')[2])
                we = float(e_) if ('.' in e_ or '.' not in v) else int(e_) * 10.0 ** (-dec)
                try:
                    got = fn(st)
                    gv, ge = float(got[0]), float(got[1])
                except NameError as ex_:
                    ctx.unrec(rule, key, 'cannot evaluate the parser on %r: %r' % (st, ex_))
                    return
                except Exception as ex_:
                    wrong.append((st, 'raised %r' % ex_, (wv, we)))
                    continue
                if abs(gv - wv) > 1e-12 * max(1.0, abs(wv)) or abs(ge - we) > 1e-12 * max(1.0, abs(we)):
                    wrong.append((st, (gv, ge), (wv, we)))
    ctx.check(rule, key + '#values', not wrong, 'every printable value(error) string is read back as (value, error scaled by the decimals of the value); %d strings evaluated' % count,
              'the prior string %r is read as %s, expected %s%s' % (wrong[0] + ((' (and %d more strings)' % (len(wrong) - 1)) if len(wrong) > 1 else '',)) if wrong else '', m.loc(f))
    ctx.info['prior_strings_evaluated'] = count
    # strings printed with the flags '', '+' and ' ' are accepted as priors: _construct_prior_obs is evaluated with stand-ins for Obs /
    # cov_Obs on such strings; the recorded call must be cov_Obs(value, error^2, ...)
    c_ = m.func('_construct_prior_obs')
    if not any(isinstance(x, (ast.Import, ast.ImportFrom, ast.Global, ast.While, ast.With, ast.Lambda)) for x in walk(c_)):
        rec = []

        class _ObsStub:
            pass

        class _NP:
            class random:
                @staticmethod
                def randint(*a, **k):
                    return 7
        try:
            g2 = _copy.deepcopy(c_)
            g2.decorator_list = []
            ns2 = {'__builtins__': dict(safe, format=format), 'Obs': _ObsStub, 'cov_Obs': lambda *a, **k: rec.append((a, k)) or 'prior', 'np': _NP, 're': _re, '_extract_val_and_dval': fn}
            exec(compile(ast.fix_missing_locations(ast.Module(body=[_copy.deepcopy(c) for c in consts] + [g2], type_ignores=[])), '<prior-obs>', 'exec'), ns2)
            wrong2 = []
            for st_, wv_, we_ in (('0.348(12)', 0.348, 0.012), ('+0.348(12)', 0.348, 0.012), (' 0.348(12)', 0.348, 0.012), ('-1.5(3)', -1.5, 0.3), (' 12(3)', 12.0, 3.0), ('+2(1)', 2.0, 1.0), ('1.5(1.2)', 1.5, 1.2)):
                del rec[:]
                try:
                    ns2[c_.name](st_, 0)
                except NameError:
                    raise
                except Exception as ex_:
                    wrong2.append((st_, 'raised %r' % ex_))
                    continue
                if len(rec) != 1 or len(rec[0][0]) < 2 or abs(rec[0][0][0] - wv_) > 1e-12 or abs(rec[0][0][1] - we_ ** 2) > 1e-12:
                    wrong2.append((st_, 'builds %r' % (rec,)))
            ctx.check(rule, 'fits.py:_construct_prior_obs#printed-strings-accepted', not wrong2, "strings as printed with the flags '', '+', ' ' become priors with exactly that value and error",
                      'the printed string %r as a prior: %s' % wrong2[0] if wrong2 else '', m.loc(c_))
        except Exception as ex_:
            ctx.unrec(rule, 'fits.py:_construct_prior_obs#printed-strings-accepted', 'cannot evaluate: %r' % ex_, m.loc(c_))
    c = m.func('_construct_prior_obs')
    cc = [x for x in walk(c) if isinstance(x, ast.Call) and call_name(x) == 'cov_Obs']
    ok = len(cc) == 1 and unparse(cc[0].args[0]) == 'loc_val' and unparse(cc[0].args[1]) == 'loc_dval ** 2'
    ctx.check(rule, 'fits.py:_construct_prior_obs#variance', ok, 'prior = cov_Obs(value, error^2)', 'prior built as %s' % [unparse(x) for x in cc])


def d3_flags(ctx, obs):
    rule = 'C19-D3'
    f = obs.func('Obs.__format__')
    # Obs.__format__ is string handling around one call of _format_uncertainty: the extracted method is evaluated with a recording
    # stub for that call on the format specifications of the quantifier ('' / '+' / ' ' flags, significance 1..6) and both signs
    import copy as _copy
    key = 'obs.py:Obs.__format__'
    bad_nodes = [type(x).__name__ for x in walk(f) if isinstance(x, (ast.Import, ast.ImportFrom, ast.Global, ast.Nonlocal, ast.While, ast.With, ast.Try, ast.Lambda))]
    if bad_nodes or len(f.args.args) != 2:
        ctx.unrec(rule, key, 'not plain string handling (%s): not evaluated' % bad_nodes, obs.loc(f))
    else:
        calls = []

        def stub(*a, **k_):
            calls.append((a, k_))
            v = a[0] if a else k_.get('value')
            return '-12.3(45)' if v < 0 else '12.3(45)'

        class _O:
            pass
        safe = {'int': int, 'float': float, 'str': str, 'len': len, 'ValueError': ValueError, 'TypeError': TypeError, 'isinstance': isinstance, 'abs': abs, 'range': range, 'bool': bool,
                'any': any, 'all': all, 'tuple': tuple, 'list': list, 'min': min, 'max': max}
        g = _copy.deepcopy(f)
        g.decorator_list = []
        wrong = []
        count = 0
        try:
            ns = {'__builtins__': safe, '_format_uncertainty': stub}
            exec(compile(ast.fix_missing_locations(ast.Module(body=[g], type_ignores=[])), '<format>', 'exec'), ns)
            fn = ns[f.name]
            for spec in [''] + [fl + sg for fl in ('', '+', ' ') for sg in ('', '1', '2', '3', '4', '5', '6')]:
                for val in (1.5, -1.5, 0.0):
                    if spec in ('+', ' '):
                        continue        # a flag without a number of digits is not a documented specification
                    o = _O()
                    o.value, o._dvalue, o.dvalue = val, 0.25, 0.25
                    del calls[:]
                    count += 1
                    try:
                        got = fn(o, spec)
                    except NameError as ex_:
                        raise Unrecognised('cannot evaluate __format__(%r): %r' % (spec, ex_))
                    except Exception as ex_:
                        wrong.append((spec, val, 'raised %r' % ex_, None))
                        continue
                    marker = '-12.3(45)' if val < 0 else '12.3(45)'
                    flag = spec[:1] if spec[:1] in ('+', ' ') else ''
                    want = (flag if marker[0] != '-' else '') + marker      # the printed string decides, not the sign of the value (0.0)
                    sig = int(spec.lstrip('+ ')) if spec.lstrip('+ ') else 2
                    if len(calls) != 1:
                        wrong.append((spec, val, '%d calls of _format_uncertainty' % len(calls), None))
                        continue
                    a_, k_ = calls[0]
                    args_ = dict(zip(('value', 'dvalue', 'significance'), a_))
                    args_.update(k_)
                    if (args_.get('value'), args_.get('dvalue'), args_.get('significance', 2)) != (val, 0.25, sig):
                        wrong.append((spec, val, 'formats %r' % (args_,), (val, 0.25, sig)))
                    elif got != want:
                        wrong.append((spec, val, got, want))
            ctx.check(rule, key + '#flags-and-significance', not wrong, 'value and dvalue are formatted with the requested number of digits; a flag only prepends its character to a non-negative number (%d specifications evaluated)' % count,
                      'format(obs, %r) for the value %s gives %s, expected %s' % wrong[0] if wrong else '', obs.loc(f))
        except Unrecognised as ex_:
            ctx.unrec(rule, key, str(ex_), obs.loc(f))
        except Exception as ex_:
            ctx.unrec(rule, key, 'cannot evaluate the method: %r' % ex_, obs.loc(f))
    fs = obs.func('Obs.__str__')
    r = [s for s in statements(fs) if isinstance(s, ast.Return)]
    ctx.check(rule, 'obs.py:Obs.__str__', len(r) == 1 and unparse(r[0].value) == '_format_uncertainty(self.value, self._dvalue)', 'str = value(error) with the default significance', 'str returns %s' % [unparse(x.value) for x in r])
    for nm_ in ('CObs.__str__', 'CObs.__repr__'):
        try:
            fs_ = obs.func(nm_)
        except Exception:
            continue
        strs = [c for c in walk(fs_) if isinstance(c, ast.Call) and call_name(c) in ('str', 'repr', 'format') and c.args]
        fvals = [x.value for x in walk(fs_) if isinstance(x, ast.FormattedValue)]
        shown = [unparse(c.args[0]) for c in strs] + [unparse(v) for v in fvals]
        parts = [x for x in shown if x not in ('self.real', 'self.imag') and ('self.real' in x or 'self.imag' in x)]
        if (strs or fvals) and any('self.real' in x or 'self.imag' in x for x in shown):
            ctx.check(rule, 'obs.py:%s#parts-printed-as-they-are' % nm_, not parts and any(x == 'self.imag' for x in shown) and any(x == 'self.real' for x in shown),
                      'real and imaginary part are printed as the analysed observables they are',
                      'prints %s: an expression of a part is a new observable without error analysis and prints as a plain number (the error is lost)' % (parts or shown), obs.loc(fs_))
    fc = obs.func('CObs.__format__')
    r = [s for s in statements(fc) if isinstance(s, ast.Return)]
    ok = len(r) == 1 and isinstance(r[0].value, ast.JoinedStr) and [unparse(x.value) for x in r[0].value.values if isinstance(x, ast.FormattedValue)] == ['self.real', 'self.imag']
    ctx.check(rule, 'obs.py:CObs.__format__', ok, 'complex observables format real and imaginary part', 'returns %s' % [unparse(x.value) for x in r])
    if ok:
        fv = [x for x in r[0].value.values if isinstance(x, ast.FormattedValue)]
        spec = [''.join(unparse(y.value) if isinstance(y, ast.FormattedValue) else y.value for y in x.format_spec.values) if x.format_spec is not None else '' for x in fv]
        # the real part is formatted with the complete specification (flags included), the imaginary part with an explicit sign
        ps = fc.args.args[1].arg
        ctx.check(rule, 'obs.py:CObs.__format__#specs', spec[0] == ps and spec[1].startswith('+'), 'real part: the full format specification; imaginary part: explicit sign + significance',
                  'real / imaginary part are formatted with the specifications %s: the flags of the requested format (%s) do not reach the real part' % (spec, ps), obs.loc(r[0]))


def mod_stmt(mod, node):
    while node is not None and not isinstance(node, ast.stmt):
        node = mod.parents.get(node)
    return node


def d4_views(ctx, obs):
    rule = 'C19-D4'
    ops = {'__lt__': ast.Lt, '__le__': ast.LtE, '__gt__': ast.Gt, '__ge__': ast.GtE}
    mirror = {ast.Lt: ast.Gt, ast.LtE: ast.GtE, ast.Gt: ast.Lt, ast.GtE: ast.LtE}
    meths = dict(obs.methods('Obs'))
    for name, op in ops.items():
        key = 'obs.py:Obs.%s' % name
        m = meths.get(name)
        if m is None:
            ctx.violated(rule, key, 'comparison missing')
            continue
        other = m.args.args[1].arg
        r = [s for s in statements(m) if isinstance(s, ast.Return)]
        body = [x for x in m.body if not (isinstance(x, ast.Expr) and isinstance(x.value, ast.Constant))]
        if len(r) != 1 or len(body) != 1:
            ctx.unrec(rule, key, 'not a single return statement')
            continue
        e = r[0].value
        # the result must be a function of the central value and the other operand only
        foreign = []

        def atoms_ok(n):
            if isinstance(n, ast.Attribute) and unparse(n) in ('self.value', 'self._value'):
                return
            if isinstance(n, ast.Name) and n.id == other:
                return
            if isinstance(n, ast.Constant) and isinstance(n.value, (int, float, bool)):
                return
            if isinstance(n, ast.Call) and call_name(n) == 'float' and len(n.args) == 1:
                atoms_ok(n.args[0])
                return
            if isinstance(n, (ast.Compare, ast.BoolOp, ast.UnaryOp, ast.BinOp)):
                for ch in ast.iter_child_nodes(n):
                    if isinstance(ch, ast.expr):
                        atoms_ok(ch)
                return
            foreign.append(unparse(n))
        atoms_ok(e)
        if foreign:
            ctx.violated(rule, key, '%s returns `%s`, which depends on %s and not only on the central value and the other operand (e.g. the tolerance based equality makes x <= y and x >= y true for unequal values)' % (
                name, unparse(e), foreign), obs.loc(m))
            continue
        import operator as _op
        pyop = {ast.Lt: _op.lt, ast.LtE: _op.le, ast.Gt: _op.gt, ast.GtE: _op.ge}[op]
        wrong = []
        for a_, b_ in ((0.0, 1.0), (1.0, 0.0), (1.0, 1.0), (-3e-11, 0.0), (0.0, -3e-11), (2.5, 2.5000000001)):
            class _S:
                value = a_
                _value = a_
            try:
                got = bool(eval(compile(ast.Expression(body=e), '<cmp>', 'eval'), {'__builtins__': {'float': float}}, {'self': _S, other: b_}))
            except Exception as ex:
                raise Unrecognised('cannot evaluate %s: %s' % (unparse(e), ex))
            if got != pyop(a_, b_):
                wrong.append((a_, b_))
        ctx.check(rule, key, not wrong, 'value %s other, decided on the central value alone' % unparse(e), '%s returns `%s`: wrong for (value, other) = %s' % (name, unparse(e), wrong), obs.loc(m))
    m = meths.get('__float__')
    r = [s for s in statements(m) if isinstance(s, ast.Return)] if m else []
    ctx.check(rule, 'obs.py:Obs.__float__', len(r) == 1 and unparse(r[0].value) == 'float(self.value)', 'float = central value', '__float__ returns %s' % [unparse(x.value) for x in r])
    m = meths.get('is_zero_within_error')
    r = [s for s in statements(m) if isinstance(s, ast.Return)] if m else []
    sig = m.args.args[1].arg if m else 'sigma'
    ok = len(r) == 1 and unparse(r[0].value) in ('self.is_zero() or np.abs(self.value) <= %s * self._dvalue' % sig, 'self.is_zero() or np.abs(self.value) <= %s * self.dvalue' % sig)
    ctx.check(rule, 'obs.py:Obs.is_zero_within_error', ok, '|value| <= sigma * dvalue', 'returns %s' % [unparse(x.value) for x in r])
    # the exact-zero shortcut of that test: is_zero() with its own default window.  The window is part of the public behaviour (everything
    # below it counts as zero whatever its error is); it is the documented 1e-10, not the 1e-8 numpy would use
    mz = meths.get('is_zero')
    if mz is not None:
        dflt = [const(d_) for d_ in mz.args.defaults]
        ctx.check(rule, 'obs.py:Obs.is_zero#default-window', dflt == [1e-10], 'is_zero() treats |x| <= 1e-10 as zero (public default)',
                  'the default window of is_zero() is %s: is_zero_within_error() reports every value below it as zero, however small its error is' % dflt, obs.loc(mz))
        calls = [c for c in walk(mz) if isinstance(c, ast.Call) and call_name(c) in ('isclose', 'allclose')]
        okc = bool(calls) and all(len(c.args) >= 4 and unparse(c.args[3]) == mz.args.args[1].arg and const(c.args[2]) == 1e-14 or
                                  (kwarg(c, 'atol') is not None and unparse(kwarg(c, 'atol')) == mz.args.args[1].arg) for c in calls)
        ctx.check(rule, 'obs.py:Obs.is_zero#window-used', okc, 'value, fluctuations and covariance part are compared with the caller\'s atol (rtol 1e-14)',
                  'closeness tests of is_zero: %s' % [unparse(c)[:60] for c in calls], obs.loc(mz))
    cm = ctx.repo.mod('correlators')
    f = cm.func('Corr.plottable')
    xs, ys, es = find_def(f, 'x_list'), find_def(f, 'y_list'), find_def(f, 'y_err_list')
    if len(xs) == len(ys) == len(es) == 1 and all(isinstance(d_[0].value, ast.ListComp) for d_ in (xs, ys, es)):
        ok = unparse(xs[0].value) == '[x for x in range(self.T) if self.content[x] is not None]' and unparse(ys[0].value) == '[y[0].value for y in self.content if y is not None]' \
            and unparse(es[0].value) == '[y[0].dvalue for y in self.content if y is not None]'
        ctx.check(rule, 'correlators.py:Corr.plottable', ok, 'x, value and error lists use one and the same defined-slice filter and .value/.dvalue', 'lists: %s / %s / %s' % (unparse(xs[0].value), unparse(ys[0].value), unparse(es[0].value)))
    else:
        # the same three lists filled by one loop: all three appends under one and the same guard
        lp = [s_ for s_ in statements(f) if isinstance(s_, ast.For) and unparse(s_.iter) in ('enumerate(self.content)', 'range(self.T)')]
        okl = False
        detail = 'lists not found'
        if len(lp) == 1:
            aps = [c for c in walk(lp[0]) if isinstance(c, ast.Call) and isinstance(c.func, ast.Attribute) and c.func.attr == 'append' and unparse(c.func.value) in ('x_list', 'y_list', 'y_err_list')]
            gs = {tuple((unparse(t), pol) for t, pol in guards_of(cm, mod_stmt(cm, c), stop=lp[0])) for c in aps}
            vals = {unparse(c.func.value): unparse(c.args[0]) for c in aps}
            if unparse(lp[0].iter) == 'enumerate(self.content)' and isinstance(lp[0].target, ast.Tuple):
                xi, yi = [unparse(e) for e in lp[0].target.elts]
                want = {'x_list': xi, 'y_list': '%s[0].value' % yi, 'y_err_list': '%s[0].dvalue' % yi}
                gwant = {((('%s is not None' % yi), True),)}
            else:
                xi = unparse(lp[0].target)
                want = {'x_list': xi, 'y_list': 'self.content[%s][0].value' % xi, 'y_err_list': 'self.content[%s][0].dvalue' % xi}
                gwant = {((('self.content[%s] is not None' % xi), True),)}
            okl = len(aps) == 3 and vals == want and gs == gwant
            detail = 'loop fills %s under %s' % (vals, sorted(gs))
        ctx.check(rule, 'correlators.py:Corr.plottable', okl, 'x, value and error lists are filled in one pass under one and the same defined-slice filter', detail)
    pv = [n for n, node in obs.methods('Obs') if n in ('value', 'dvalue')]
    for nm in ('value', 'dvalue'):
        q = 'Obs.' + nm
        if obs.has_func(q):
            r = [s for s in statements(obs.func(q)) if isinstance(s, ast.Return)]
            ctx.check(rule, 'obs.py:%s' % q, len(r) == 1 and unparse(r[0].value) == 'self._' + nm, '%s property returns the stored %s' % (nm, nm), 'returns %s' % [unparse(x.value) for x in r])


def run(ctx):
    ctx.rule('C19-D1', 'same decimal place for value and error in all branches')
    ctx.rule('C19-D2', 'prior parser is the inverse scaling')
    ctx.rule('C19-D3', 'flags prepend only; str/format call the formatter with value and dvalue')
    ctx.rule('C19-D4', 'scalar views')
    ctx.not_decided += ['rounding carries of the float formatter', 'the half-unit bound of the round trip']
    obs = ctx.repo.mod('obs')
    ctx.guarded('C19-D1', 'obs.py:_format_uncertainty', d1_decimals, ctx, obs)
    ctx.guarded('C19-D1', 'obs.py:_format_uncertainty@evaluated', d1b_format_evaluated, ctx, obs)
    ctx.guarded('C19-D2', 'fits.py:_extract_val_and_dval', d2_prior, ctx)
    ctx.guarded('C19-D3', 'obs.py:Obs.__format__', d3_flags, ctx, obs)
    ctx.guarded('C19-D4', 'obs.py@views', d4_views, ctx, obs)
    ctx.floor('C19 obligations', len(ctx.obs), 24)


SELFTEST = [
    ('is-zero-window-widened', 'pyerrors/obs.py', '    def is_zero(self, atol=1e-10):', '    def is_zero(self, atol=1e-8):', 'C19-D4'),
    ('prior-regex-drops-sign', 'pyerrors/fits.py', "    split_string = string.split('(')", "    import_free = string.lstrip('+-')\n    split_string = import_free.split('(')", 'C19-D2'),
    ('benign-prior-partition', 'pyerrors/fits.py', "    split_string = string.split('(')", "    split_string = list(string.partition('(')[::2])", 'BENIGN'),
    ('prior-error-unscaled-with-dot', 'pyerrors/fits.py', "if '.' in split_string[0] and '.' not in split_string[1][:-1]:", "if '.' in split_string[0]:", 'C19-D2'),
    ('error-digits-cut', 'pyerrors/obs.py', "        return f\"{value:.{significance - 1}f}({dvalue:1.{significance - 1}f})\"", "        return f\"{value:.{significance - 1}f}(\" + f\"{dvalue:1.{significance - 1}f}\"[:significance + 1] + \")\"", 'C19-D1'),
    ('le-via-tolerant-eq', 'pyerrors/obs.py', "    def __le__(self, other):\n        return self.value <= other", "    def __le__(self, other):\n        return self.value < other or self == other", 'C19-D4'),
    ('benign-ge-mirrored', 'pyerrors/obs.py', "    def __ge__(self, other):\n        return self.value >= other", "    def __ge__(self, other):\n        return not (self.value < other)", 'BENIGN'),
    ('decimals-branch1', 'pyerrors/obs.py', "form='.' + str(-int(fexp) + significance - 1) + 'f')", "form='.' + str(-int(fexp) + significance) + 'f')", 'C19-D1'),
    ('mantissa-branch1', 'pyerrors/obs.py', "dvalue * 10 ** (-fexp + significance - 1), form", "dvalue * 10 ** (-fexp + significance), form", 'C19-D1'),
    ('decimals-branch2', 'pyerrors/obs.py', 'return f"{value:.{significance - 1}f}({dvalue:1.{significance - 1}f})"', 'return f"{value:.{significance}f}({dvalue:1.{significance - 1}f})"', 'C19-D1'),
    ('decimals-branch3', 'pyerrors/obs.py', '({dvalue:2.{max(0, int(significance - fexp - 1))}f})"', '({dvalue:2.{max(0, int(significance - fexp))}f})"', 'C19-D1'),
    ('prior-scaling', 'pyerrors/fits.py', "factor = 10 ** -len(split_string[0].partition('.')[2])", "factor = 10 ** -(len(split_string[0].partition('.')[2]) - 1)", 'C19-D2'),
    ('prior-variance', 'pyerrors/fits.py', "return cov_Obs(loc_val, loc_dval ** 2,", "return cov_Obs(loc_val, loc_dval,", 'C19-D2'),
    ('flag-replaces', 'pyerrors/obs.py', "                    my_str = char + my_str", "                    my_str = char + my_str[1:]", 'C19-D3'),
    ('lt-le', 'pyerrors/obs.py', "    def __lt__(self, other):\n        return self.value < other", "    def __lt__(self, other):\n        return self.value <= other", 'C19-D4'),
    ('gt-uses-dvalue', 'pyerrors/obs.py', "    def __gt__(self, other):\n        return self.value > other", "    def __gt__(self, other):\n        return self.value - self._dvalue > other", 'C19-D4'),
    ('float-dvalue', 'pyerrors/obs.py', "        return float(self.value)", "        return float(self._dvalue)", 'C19-D4'),
    ('zero-test', 'pyerrors/obs.py', "np.abs(self.value) <= sigma * self._dvalue", "np.abs(self.value) <= sigma * self.ddvalue", 'C19-D4'),
    ('plottable-filter', 'pyerrors/correlators.py', "y_err_list = [y[0].dvalue for y in self.content if y is not None]", "y_err_list = [y[0].dvalue for y in self.content[1:] if y is not None]", 'C19-D4'),
    ('str-signif', 'pyerrors/obs.py', "    def __str__(self):\n        return _format_uncertainty(self.value, self._dvalue)", "    def __str__(self):\n        return _format_uncertainty(self.value, self.ddvalue)", 'C19-D3'),
    ('benign-mirror', 'pyerrors/obs.py', "    def __lt__(self, other):\n        return self.value < other", "    def __lt__(self, other):\n        return other > self.value", 'BENIGN'),
]
