"""C20  Constant tables and special-function derivatives are mathematically exact.

Exhaustive constant folding over the literal tables of dirac.py (exact Gaussian rationals, sympy matrices built from the
literals in the source -- the module is never imported), structural/exhaustive check of the epsilon tensors, symbolic check of
the registered vjp of kn, import provenance of the re-exported special functions.
"""
import ast
import itertools

import sympy as sp

from ..srcmodel import Unrecognised, AnchorMissing, unparse, call_name, kwarg, walk, statements, guards_of, const

LEVEL = 'proof'
EXPLANATION = ('the literal gamma matrices and every branch expression of Grid_gamma are folded exactly and compared with the algebraic definitions; epsilon tensors are evaluated '
               'exhaustively on their whole domain from the extracted expression; the kn vjp expression is compared with d/dx K_n for integer orders')
LEVEL_TEXT = ('exhaustive over finite tables: Clifford algebra, hermiticity, gamma5 = product and anticommutation (all index pairs), all 16 Grid tags against the meaning of their names, '
              'epsilon tensors on every tuple of both index windows (and rejection outside), kn derivative identity for orders 0..8, provenance of re-exports. '
              'Numerical accuracy of scipy\'s Bessel functions is not decided.')
TECHNIQUE = 'constant folding of literal tables into exact sympy matrices; per-tag abstract interpretation of the tag table with object-identity tracking of module-level matrices; exhaustive evaluation of extracted index functions; symbolic Bessel derivative identity'

AXES = ['X', 'Y', 'Z', 'T']


class Fold:
    """exact evaluator for the literal expressions of dirac.py"""

    def __init__(self, mod):
        self.mod = mod
        self.env = {}
        for s in mod.tree.body:
            if isinstance(s, ast.Assign) and len(s.targets) == 1 and isinstance(s.targets[0], ast.Name):
                try:
                    self.env[s.targets[0].id] = self.ev(s.value)
                except Unrecognised:
                    pass
            elif isinstance(s, ast.Assign) and len(s.targets) == 1 and isinstance(s.targets[0], ast.Tuple) and all(isinstance(x, ast.Name) for x in s.targets[0].elts):
                # X, Y, Z, T = range(4)   /   a, b = 0, 1
                try:
                    if isinstance(s.value, ast.Call) and isinstance(s.value.func, ast.Name) and s.value.func.id == 'range' and len(s.value.args) == 1 and isinstance(s.value.args[0], ast.Constant):
                        vals = [sp.Integer(i_) for i_ in range(s.value.args[0].value)]
                    else:
                        vals = self.ev(s.value)
                    if isinstance(vals, list) and len(vals) == len(s.targets[0].elts):
                        for x, v in zip(s.targets[0].elts, vals):
                            self.env[x.id] = v
                except Unrecognised:
                    pass

    def num(self, v):
        if isinstance(v, bool):
            raise Unrecognised('bool')
        if isinstance(v, int):
            return sp.Integer(v)
        if isinstance(v, float):
            return sp.nsimplify(v, rational=True)
        if isinstance(v, complex):
            return sp.nsimplify(v.real, rational=True) + sp.I * sp.nsimplify(v.imag, rational=True)
        raise Unrecognised(repr(v))

    def ev(self, e, env=None):
        env = env if env is not None else self.env
        if isinstance(e, ast.Constant):
            return self.num(e.value)
        if isinstance(e, ast.Name):
            if e.id in env:
                return env[e.id]
            raise Unrecognised('name %s' % e.id)
        if isinstance(e, ast.UnaryOp) and isinstance(e.op, ast.USub):
            return -self.ev(e.operand, env)
        if isinstance(e, ast.UnaryOp) and isinstance(e.op, ast.UAdd):
            return self.ev(e.operand, env)
        if isinstance(e, (ast.List, ast.Tuple)):
            return [self.ev(x, env) for x in e.elts]
        if isinstance(e, ast.Call) and (self.mod.dotted(e.func) or '') in ('numpy.array', 'numpy.asarray', 'numpy.stack') and e.args:
            v = self.ev(e.args[0], env)
            if isinstance(v, list) and v and isinstance(v[0], list) and not isinstance(v[0][0], (list, sp.MatrixBase)):
                return sp.Matrix(v)
            return v
        if isinstance(e, ast.Call) and (self.mod.dotted(e.func) or '') == 'numpy.diag' and len(e.args) == 1:
            v = self.ev(e.args[0], env)
            if isinstance(v, list) and v and not isinstance(v[0], (list, sp.MatrixBase)):
                return sp.diag(*v)
            raise Unrecognised('np.diag of %s' % unparse(e.args[0]))
        if isinstance(e, ast.Call) and (self.mod.dotted(e.func) or '') in ('numpy.eye', 'numpy.identity') and len(e.args) == 1 and isinstance(e.args[0], ast.Constant) and isinstance(e.args[0].value, int):
            return sp.eye(e.args[0].value)
        if isinstance(e, ast.Subscript):
            b = self.ev(e.value, env)
            i = self.ev(e.slice, env)
            if isinstance(b, list):
                return b[int(i)]
            raise Unrecognised('subscript %s' % unparse(e))
        if isinstance(e, ast.BinOp):
            a, b = self.ev(e.left, env), self.ev(e.right, env)
            if isinstance(e.op, ast.MatMult):
                return a * b
            if isinstance(e.op, ast.Add):
                return a + b
            if isinstance(e.op, ast.Sub):
                return a - b
            if isinstance(e.op, ast.Mult):
                if isinstance(a, sp.MatrixBase) and isinstance(b, sp.MatrixBase):
                    return a.multiply_elementwise(b)    # numpy `*` of two arrays
                return a * b
            if isinstance(e.op, ast.Div):
                return a / b
            if isinstance(e.op, ast.Pow):
                return a ** b
        if isinstance(e, ast.Call) and (self.mod.dotted(e.func) or '') in ('numpy.matmul', 'numpy.dot') and len(e.args) == 2:
            return self.ev(e.args[0], env) * self.ev(e.args[1], env)
        if isinstance(e, ast.Call) and isinstance(e.func, ast.Name) and self.mod.has_func(e.func.id) and not e.keywords and depth_ok(self):
            # module-level helper with a single `return <expr>` (docstring allowed): evaluate its body with the arguments bound
            h = self.mod.func(e.func.id)
            body = [x for x in h.body if not (isinstance(x, ast.Expr) and isinstance(x.value, ast.Constant) and isinstance(x.value.value, str))]
            params = [a.arg for a in h.args.args]
            if len(body) == 1 and isinstance(body[0], ast.Return) and body[0].value is not None and len(params) == len(e.args) and not h.args.vararg and not h.args.kwarg:
                env2 = dict(self.env)
                for p_, a_ in zip(params, e.args):
                    env2[p_] = self.ev(a_, env)
                self._depth = getattr(self, '_depth', 0) + 1
                try:
                    return self.ev(body[0].value, env2)
                finally:
                    self._depth -= 1
        raise Unrecognised('cannot fold %s' % unparse(e))


def depth_ok(folder):
    return getattr(folder, '_depth', 0) < 4


def d1_clifford(ctx, m, fold):
    rule = 'C20-D1'
    g = []
    for ax in AXES:
        v = fold.env.get('gamma' + ax)
        if not isinstance(v, sp.MatrixBase) or v.shape != (4, 4):
            raise AnchorMissing('literal 4x4 matrix gamma%s not found in dirac.py' % ax)
        g.append(v)
    I4 = sp.eye(4)
    for a in range(4):
        for b in range(a, 4):
            anti = g[a] * g[b] + g[b] * g[a]
            want = 2 * I4 if a == b else sp.zeros(4)
            ctx.check(rule, 'dirac.py:{gamma%s,gamma%s}' % (AXES[a], AXES[b]), anti == want, '{gamma_mu, gamma_nu} = 2 delta', 'anticommutator is %s' % anti.tolist())
    for a in range(4):
        ctx.check(rule, 'dirac.py:gamma%s#hermitian' % AXES[a], g[a].H == g[a], 'hermitian', 'gamma%s is not hermitian' % AXES[a])
    g5 = fold.env.get('gamma5')
    if not isinstance(g5, sp.MatrixBase):
        raise AnchorMissing('gamma5 literal not found')
    ctx.check(rule, 'dirac.py:gamma5#product', g5 == g[0] * g[1] * g[2] * g[3], 'gamma5 = gammaX gammaY gammaZ gammaT', 'gamma5 literal %s differs from the product %s' % (g5.tolist(), (g[0] * g[1] * g[2] * g[3]).tolist()))
    ctx.check(rule, 'dirac.py:gamma5#hermitian', g5.H == g5, 'hermitian', 'gamma5 not hermitian')
    for a in range(4):
        ctx.check(rule, 'dirac.py:{gamma5,gamma%s}' % AXES[a], g5 * g[a] + g[a] * g5 == sp.zeros(4), '{gamma5, gamma_mu} = 0', 'gamma5 does not anticommute with gamma%s' % AXES[a])
    idm = fold.env.get('identity')
    ctx.check(rule, 'dirac.py:identity', isinstance(idm, sp.MatrixBase) and idm == I4, 'identity is the unit matrix', 'identity literal is %s' % (idm.tolist() if isinstance(idm, sp.MatrixBase) else idm))
    ga = fold.env.get('gamma')
    ok = isinstance(ga, list) and len(ga) == 4 and all(ga[i] == g[i] for i in range(4))
    ctx.check(rule, 'dirac.py:gamma#order', ok, 'gamma = [X, Y, Z, T]', 'the gamma array is not [gammaX, gammaY, gammaZ, gammaT]')
    return g, g5


class _Raised(Exception):
    pass


class _Break(Exception):
    pass


class _Continue(Exception):
    pass


class GridInterp:
    """Evaluates Grid_gamma for one concrete tag: string tests are evaluated on the tag, matrix expressions are folded exactly.
    Tracks whether a module-level table (an object reachable from the module constants) is updated in place."""

    SAFE = {'len': len, 'str': str, 'isinstance': isinstance, 'ValueError': ValueError, 'KeyError': KeyError, 'Exception': Exception, 'any': any, 'all': all, 'tuple': tuple,
            'list': list, 'set': set, 'frozenset': frozenset, 'int': int, 'bool': bool, 'sorted': sorted, 'dict': dict}

    def __init__(self, mod, fold, func):
        self.mod, self.fold, self.f = mod, fold, func
        self.shared = set()

        def reach(v):
            if isinstance(v, sp.MatrixBase):
                self.shared.add(id(v))
            elif isinstance(v, (list, tuple)):
                for x in v:
                    reach(x)
            elif isinstance(v, dict):
                for x in v.values():
                    reach(x)
        for v in fold.env.values():
            reach(v)

    def ev(self, e, env):
        if isinstance(e, ast.Call) and isinstance(e.func, ast.Attribute) and e.func.attr == 'copy' and not e.args:
            v = self.ev(e.func.value, env)
            return v.copy() if hasattr(v, 'copy') else v
        if isinstance(e, ast.Call) and (self.mod.dotted(e.func) or '') in ('numpy.array', 'numpy.copy') and len(e.args) == 1:
            v = self.ev(e.args[0], env)
            return v.copy() if isinstance(v, sp.MatrixBase) else v
        if isinstance(e, ast.Dict) and all(isinstance(k, ast.Constant) for k in e.keys):
            return {k.value: self.ev(v, env) for k, v in zip(e.keys, e.values)}
        try:
            return self.fold.ev(e, env)
        except Unrecognised:
            pass
        if any(isinstance(x, (ast.Lambda, ast.Await, ast.Yield, ast.NamedExpr)) or (isinstance(x, ast.Attribute) and x.attr.startswith('_')) for x in ast.walk(e)):
            raise Unrecognised('expression %s' % unparse(e))
        try:
            return eval(compile(ast.Expression(body=e), '<grid>', 'eval'), {'__builtins__': self.SAFE}, dict(env))
        except (KeyError, ValueError, IndexError) as ex_:
            raise _Raised(type(ex_).__name__)
        except Exception as ex_:
            raise Unrecognised('cannot evaluate %s: %r' % (unparse(e), ex_))

    def seq(self, e, env):
        """a literal tuple / list of constants or of constant tuples (possibly through a module-level name)"""
        if isinstance(e, ast.Name):
            for st in self.mod.tree.body:
                if isinstance(st, ast.Assign) and len(st.targets) == 1 and isinstance(st.targets[0], ast.Name) and st.targets[0].id == e.id:
                    return self.seq(st.value, env)
        if isinstance(e, (ast.Tuple, ast.List)):
            out = []
            for x in e.elts:
                if isinstance(x, (ast.Tuple, ast.List)):
                    out.append(tuple(self.seq(x, env)))
                elif isinstance(x, ast.Constant):
                    out.append(x.value if isinstance(x.value, str) else self.fold.num(x.value))
                else:
                    out.append(self.ev(x, env))
            return out
        if isinstance(e, ast.Call) and isinstance(e.func, ast.Name) and e.func.id == 'range' and len(e.args) == 1 and isinstance(e.args[0], ast.Constant):
            return [sp.Integer(i_) for i_ in range(e.args[0].value)]
        raise Unrecognised('loop over %s' % unparse(e))

    def bind(self, target, item, env):
        if isinstance(target, ast.Name):
            env[target.id] = item
        elif isinstance(target, ast.Tuple) and isinstance(item, (tuple, list)) and len(item) == len(target.elts):
            for t_, v_ in zip(target.elts, item):
                self.bind(t_, v_, env)
        else:
            raise Unrecognised('loop target %s' % unparse(target))

    def run(self, tag):
        env = dict(self.fold.env)
        env[self.f.args.args[0].arg] = tag
        self.inplace = []
        try:
            r = self.block(self.f.body, env)
        except _Raised as ex_:
            return ('raise', str(ex_))
        return r if r is not None else ('return', None)

    def block(self, body, env):
        for s in body:
            if isinstance(s, ast.Expr) and isinstance(s.value, ast.Constant):
                continue
            if isinstance(s, ast.Pass):
                continue
            if isinstance(s, ast.Assign) and len(s.targets) == 1 and isinstance(s.targets[0], ast.Name):
                env[s.targets[0].id] = self.ev(s.value, env)
            elif isinstance(s, ast.Assign) and len(s.targets) == 1 and isinstance(s.targets[0], ast.Tuple) and all(isinstance(t_, ast.Name) for t_ in s.targets[0].elts):
                v_ = self.ev(s.value, env)
                if hasattr(v_, '__next__') or isinstance(v_, (map, zip)):
                    try:
                        v_ = list(v_)       # a generator of pure string / number expressions
                    except Exception as ex_:
                        raise Unrecognised('cannot evaluate %s: %r' % (unparse(s.value), ex_))
                if not (isinstance(v_, (list, tuple)) and len(v_) == len(s.targets[0].elts)):
                    raise Unrecognised('unpacking %s' % unparse(s))
                for t_, x_ in zip(s.targets[0].elts, v_):
                    env[t_.id] = x_        # the same objects: views of the module-level table stay aliases of it
            elif isinstance(s, ast.Assign) and len(s.targets) == 1 and isinstance(s.targets[0], ast.Subscript):
                base = self.ev(s.targets[0].value, env)
                if id(base) in self.shared:
                    self.inplace.append((s, unparse(s.targets[0].value)))
                raise Unrecognised('element assignment %s' % unparse(s))
            elif isinstance(s, ast.AugAssign) and isinstance(s.target, ast.Name):
                old = self.ev(s.target, env)
                if id(old) in self.shared:
                    self.inplace.append((s, s.target.id))
                new = self.ev(ast.BinOp(left=s.target, op=s.op, right=s.value), env)
                env[s.target.id] = new
            elif isinstance(s, ast.If):
                t = self.ev(s.test, env)
                if isinstance(t, sp.MatrixBase):
                    raise Unrecognised('matrix valued test %s' % unparse(s.test))
                r = self.block(s.body if t else s.orelse, env)
                if r is not None:
                    return r
            elif isinstance(s, ast.For):
                seq = self.seq(s.iter, env)
                broke = False
                for item in seq:
                    self.bind(s.target, item, env)
                    try:
                        r = self.block(s.body, env)
                    except _Break:
                        broke = True
                        break
                    except _Continue:
                        continue
                    if r is not None:
                        return r
                if not broke and s.orelse:
                    r = self.block(s.orelse, env)       # for ... else: runs when the loop was not left by break
                    if r is not None:
                        return r
            elif isinstance(s, ast.Break):
                raise _Break()
            elif isinstance(s, ast.Continue):
                raise _Continue()
            elif isinstance(s, ast.Return):
                return ('return', self.ev(s.value, env) if s.value is not None else None)
            elif isinstance(s, ast.Raise):
                raise _Raised(unparse(s.exc.func) if isinstance(s.exc, ast.Call) else unparse(s.exc) if s.exc else 'raise')
            elif isinstance(s, ast.Try) and not s.finalbody:
                try:
                    r = self.block(s.body, env)
                except _Raised as ex_:
                    hs = [h for h in s.handlers if h.type is None or str(ex_) in unparse(h.type) or unparse(h.type) in ('Exception', 'LookupError')]
                    if not hs:
                        raise
                    r = self.block(hs[0].body, env)
                else:
                    if r is None and s.orelse:
                        r = self.block(s.orelse, env)
                if r is not None:
                    return r
            else:
                raise Unrecognised('statement %s' % unparse(s).splitlines()[0])
        return None


def d2_grid(ctx, m, fold, g, g5):
    """Grid_gamma is evaluated for every one of the 16 tags (string tests decided on the concrete tag, the selected matrix
    expression folded exactly) and for tags outside the table; the result is compared with the product / commutator the tag names.
    A branch that updates a module-level matrix in place changes what later calls (and the Clifford algebra) see."""
    rule = 'C20-D2'
    f = m.func('Grid_gamma')
    want = {'Identity': sp.eye(4), 'Gamma5': g[0] * g[1] * g[2] * g[3]}
    for i, a in enumerate(AXES):
        want['Gamma' + a] = g[i]
        want['Gamma%sGamma5' % a] = g[i] * want['Gamma5']
    for i, j in itertools.combinations(range(4), 2):
        want['Sigma%s%s' % (AXES[i], AXES[j])] = sp.Rational(1, 2) * (g[i] * g[j] - g[j] * g[i])
    if len(f.args.args) != 1:
        ctx.unrec(rule, 'dirac.py:Grid_gamma', 'expected one parameter')
        return
    decos = [unparse(d_) for d_ in f.decorator_list]
    ctx.check(rule, 'dirac.py:Grid_gamma#fresh-arrays', not any('cache' in d_ for d_ in decos), 'every call builds its result (no memoisation of mutable arrays)',
              'Grid_gamma is memoised (%s): all callers of one tag share one mutable array, an in-place operation on a returned matrix changes what every later call returns' % decos, m.loc(f))
    it = GridInterp(m, fold, f)
    n = 0
    inplace = {}
    for tag, w in want.items():
        key = 'dirac.py:Grid_gamma#%s' % tag
        try:
            out = it.run(tag)
        except Unrecognised as e:
            ctx.unrec(rule, key, str(e), m.loc(f))
            continue
        for st, nm in it.inplace:
            inplace.setdefault((st.lineno, nm), (st, tag))
        n += 1
        if out[0] == 'raise':
            ctx.violated(rule, key, 'tag %s is not handled (%s raised)' % (tag, out[1]), m.loc(f))
            continue
        got = out[1]
        ctx.check(rule, key, isinstance(got, sp.MatrixBase) and got == w, '%s evaluates to the structure its name denotes' % tag,
                  'tag %s returns %s, its name denotes %s' % (tag, got.tolist() if isinstance(got, sp.MatrixBase) else got, w.tolist()), m.loc(f))
    unknown = ['', 'Foo', 'GammaW', 'SigmaXX', 'gamma5', 'identity', 'Gamma5GammaX', 'SigmaTX', 'SigmaWX', 'SigmatY', 'Sigma?T', 'Sigma?Z', 'SigmaXW', 'SigmaX', 'SigmaXYZ', 'sigmaXY',
               'SigmaYX', 'SigmaZY', 'SigmaTT', 'GammaXGamma5 ', ' GammaX', 'GammaX ', 'GammaTGamma5X', 'Gamma5Gamma5', 'GammaGammaX', 'Sigma', 'Gamma', 'SigmaXy', 'Sigmaxy', 'Identity ']
    notraise = []
    for tag in unknown:
        try:
            out = it.run(tag)
        except Unrecognised as e:
            ctx.unrec(rule, 'dirac.py:Grid_gamma#else', '%r: %s' % (tag, e), m.loc(f))
            break
        for st, nm in it.inplace:
            inplace.setdefault((st.lineno, nm), (st, tag))
        if out[0] != 'raise':
            notraise.append(tag)
    else:
        ctx.check(rule, 'dirac.py:Grid_gamma#else', not notraise, 'tags outside the table raise (%d evaluated)' % len(unknown), 'unknown tags %s do not raise' % notraise, m.loc(f))
    # prefixed variants of known tags: whatever they return, evaluating them must not write to the module tables
    for pre in sorted({c.value for c in ast.walk(f) if isinstance(c, ast.Constant) and isinstance(c.value, str) and c.value.isalpha() and c.value not in want and len(c.value) < 12}):
        for tag in ('Identity', 'GammaX', 'SigmaXT'):
            for t2 in (pre + tag, tag + pre):
                try:
                    it.run(t2)
                except Unrecognised:
                    continue
                for st, nm in it.inplace:
                    inplace.setdefault((st.lineno, nm), (st, t2))
    ctx.check(rule, 'dirac.py:Grid_gamma#tables-read-only', not inplace, 'no tag makes the function update a module-level matrix in place',
              '; '.join('`%s` updates the module-level matrix bound to %s in place for tag %r: every later call and the Clifford algebra see the changed table' % (unparse(st), nm, tag) for (ln, nm), (st, tag) in sorted(inplace.items())),
              m.loc(next(iter(inplace.values()))[0]) if inplace else None)
    ctx.floor('Grid_gamma tags folded', n, 16)


def d3_epsilon(ctx, m):
    """The two epsilon functions are pure integer arithmetic behind a domain guard.  The extracted function (its own statements,
    module-level index-set constants, no imports, restricted builtins) is evaluated on every index tuple of the box [-1, n+1]^n:
    inside one of the windows {0..n-1}^n / {1..n}^n it must return the permutation sign (0 for a repeated index), outside it must
    raise ValueError - whatever the control flow looks like (early returns, helper sets, guard clauses)."""
    rule = 'C20-D3'
    import copy as _copy
    consts = [x for x in m.tree.body if isinstance(x, ast.Assign) and isinstance(x.value, (ast.Call, ast.Set, ast.Tuple, ast.List, ast.Dict, ast.Constant))
              and all(isinstance(y, (ast.Assign, ast.Name, ast.Constant, ast.Set, ast.Tuple, ast.List, ast.Dict, ast.Call, ast.Load, ast.Store, ast.keyword)) for y in ast.walk(x))
              and all(call_name(y) in ('frozenset', 'set', 'tuple', 'range') for y in ast.walk(x.value) if isinstance(y, ast.Call))]
    safe = {'set': set, 'frozenset': frozenset, 'ValueError': ValueError, 'Exception': Exception, 'all': all, 'any': any, 'min': min, 'max': max, 'len': len, 'range': range,
            'sorted': sorted, 'tuple': tuple, 'list': list, 'abs': abs, 'int': int, 'float': float, 'sum': sum, 'isinstance': isinstance}
    for fname, n in (('epsilon_tensor', 3), ('epsilon_tensor_rank4', 4)):
        f = m.func(fname)
        p = [a.arg for a in f.args.args]
        if len(p) != n:
            ctx.unrec(rule, 'dirac.py:%s' % fname, 'expected %d index parameters' % n)
            continue
        if any(isinstance(x, (ast.Import, ast.ImportFrom, ast.Global, ast.Nonlocal, ast.While, ast.Attribute)) for x in ast.walk(f)):
            ctx.unrec(rule, 'dirac.py:%s' % fname, 'function is not plain index arithmetic (attribute access / import / loop): not evaluated')
            continue
        g = _copy.deepcopy(f)
        g.decorator_list = []
        # module-level helpers the function calls (plain index arithmetic as well)
        called = {call_name(c_) for c_ in ast.walk(f) if isinstance(c_, ast.Call)}
        helpers = []
        for h_ in m.tree.body:
            if isinstance(h_, ast.FunctionDef) and h_.name in called and h_.name != fname \
                    and not any(isinstance(x, (ast.Import, ast.ImportFrom, ast.Global, ast.Nonlocal, ast.While, ast.Attribute)) for x in ast.walk(h_)):
                h2 = _copy.deepcopy(h_)
                h2.decorator_list = []
                helpers.append(h2)
        try:
            ns = {'__builtins__': safe}
            exec(compile(ast.fix_missing_locations(ast.Module(body=consts + helpers + [g], type_ignores=[])), '<epsilon>', 'exec'), ns)
            fn = ns[fname]
        except Exception as ex_:
            ctx.unrec(rule, 'dirac.py:%s' % fname, 'cannot evaluate the function: %r' % ex_)
            continue
        wrong_dom, wrong_val = [], []
        count = 0
        for tup in itertools.product(range(-1, n + 2), repeat=n):
            count += 1
            inside = [lo for lo in (0, 1) if all(lo <= x <= lo + n - 1 for x in tup)]
            try:
                val = fn(*tup)
                raised = False
            except ValueError:
                raised = True
            except Exception as ex_:
                wrong_dom.append((tup, repr(ex_)))
                continue
            if not inside:
                if not raised:
                    wrong_dom.append((tup, 'returned %r' % (val,)))
                continue
            if raised:
                wrong_dom.append((tup, 'raised'))
                continue
            if len(set(tup)) < n:
                want = 0
            else:
                perm = [t - inside[0] for t in tup]
                inv = sum(1 for a_ in range(n) for b_ in range(a_ + 1, n) if perm[a_] > perm[b_])
                want = -1 if inv % 2 else 1
            if val != want:
                wrong_val.append((tup, val, want))
        ctx.check(rule, 'dirac.py:%s#domain' % fname, not wrong_dom, 'tuples outside the windows {0..%d} / {1..%d} raise ValueError, tuples inside are accepted (%d tuples evaluated)' % (n - 1, n, count),
                  'wrong domain behaviour for %s' % wrong_dom[:4], m.loc(f))
        ctx.check(rule, 'dirac.py:%s#values' % fname, not wrong_val, 'equals the permutation sign on every tuple of both windows',
                  'epsilon%s = %s, expected %s' % wrong_val[0] if wrong_val else '', m.loc(f))
        ctx.info['epsilon_tuples_' + fname] = count


def d4_kn(ctx):
    rule = 'C20-D4'
    m = ctx.repo.mod('special')
    f = m.func('kn')
    pn = [a.arg for a in f.args.args]
    deco = [unparse(d) for d in f.decorator_list]
    ctx.check(rule, 'special.py:kn#primitive', 'primitive' in deco, 'kn is an autograd primitive', 'decorators: %s' % deco)
    ret = [s for s in statements(f) if isinstance(s, ast.Return)]
    ok = len(ret) == 1 and (m.dotted(ret[0].value.func) or '') == 'scipy.special.kn' and [unparse(a) for a in ret[0].value.args] == pn
    ctx.check(rule, 'special.py:kn#value', ok, 'kn(n, x) = scipy.special.kn(n, x)', 'returns %s' % [unparse(r.value) for r in ret])
    rs = [s for s in statements(f) if isinstance(s, ast.Raise)]
    g = unparse(guards_of(m, rs[0], stop=f)[0][0]) if rs and guards_of(m, rs[0], stop=f) else ''
    ctx.check(rule, 'special.py:kn#integer-order', g in ('int(%s) != %s' % (pn[0], pn[0]), '%s != int(%s)' % (pn[0], pn[0])), 'non-integer orders are rejected', 'guard is `%s`' % g)
    dv = [c for c in ast.walk(m.tree) if isinstance(c, ast.Call) and call_name(c) == 'defvjp' and c.args and unparse(c.args[0]) == 'kn']
    if len(dv) != 1 or len(dv[0].args) != 3:
        ctx.unrec(rule, 'special.py:defvjp(kn)', 'defvjp(kn, <n slot>, <x slot>) not found')
        return
    a1, a2 = dv[0].args[1], dv[0].args[2]
    ctx.check(rule, 'special.py:defvjp(kn)#n-slot', isinstance(a1, ast.Constant) and a1.value is None, 'no derivative with respect to the order', 'n slot is %s' % unparse(a1))
    if not (isinstance(a2, ast.Lambda) and isinstance(a2.body, ast.Lambda) and len(a2.args.args) == 3 and len(a2.body.args.args) == 1):
        ctx.unrec(rule, 'special.py:defvjp(kn)#x-slot', 'x slot is not lambda ans, n, x: lambda g: ...')
        return
    ans, nn, xx = [a.arg for a in a2.args.args]
    gg = a2.body.args.args[0].arg
    x = sp.Symbol('x', positive=True)
    G = sp.Symbol('g', real=True)

    def build(nval):
        def tr(e):
            if isinstance(e, ast.Name):
                if e.id == nn:
                    return sp.Integer(nval)
                if e.id == xx:
                    return x
                if e.id == gg:
                    return G
                if e.id == ans:
                    return sp.besselk(sp.Integer(nval), x)       # the forward value K_n(x)
                raise Unrecognised('name %s' % e.id)
            if isinstance(e, ast.Constant):
                return sp.nsimplify(e.value, rational=True)
            if isinstance(e, ast.UnaryOp) and isinstance(e.op, ast.USub):
                return -tr(e.operand)
            if isinstance(e, ast.BinOp):
                a, b = tr(e.left), tr(e.right)
                return {ast.Add: lambda: a + b, ast.Sub: lambda: a - b, ast.Mult: lambda: a * b, ast.Div: lambda: a / b}[type(e.op)]()
            if isinstance(e, ast.Call):
                d = m.dotted(e.func) or ''
                if d == 'kn' and len(e.args) == 2:
                    return sp.besselk(tr(e.args[0]), tr(e.args[1]))
                if d in ('numpy.abs', 'abs', 'numpy.absolute'):
                    return sp.Abs(tr(e.args[0]))
            raise Unrecognised('cannot translate %s' % unparse(e))
        return tr(a2.body.body)
    bad = None
    try:
        for nval in range(0, 9):
            got = build(nval)
            want = G * sp.diff(sp.besselk(nval, x), x)
            for xv in (sp.Rational(3, 7), sp.Rational(5, 2), sp.Integer(6)):
                d = sp.N((got - want).subs({x: xv, G: sp.Rational(7, 3)}), 30)
                if abs(d) > 1e-20:
                    bad = (nval, xv, sp.N(got.subs({x: xv, G: 1}), 10), sp.N(want.subs({x: xv, G: 1}), 10))
                    break
            if bad:
                break
    except Unrecognised as e:
        ctx.unrec(rule, 'special.py:defvjp(kn)#x-slot', str(e))
        return
    ctx.check(rule, 'special.py:defvjp(kn)#x-slot', bad is None, 'vjp = g * d/dx K_n(x) = -g (K_{n-1} + K_{n+1})/2 for n = 0..8',
              'registered derivative of K_%s at x=%s is %s, exact %s' % bad if bad else '', m.loc(dv[0]))


def d5_reexports(ctx):
    rule = 'C20-D5'
    m = ctx.repo.mod('special')
    al = [s for s in m.tree.body if isinstance(s, ast.Assign) and unparse(s.targets[0]) == '__all__']
    if len(al) != 1 or not isinstance(al[0].value, ast.List):
        ctx.unrec(rule, 'special.py:__all__', '__all__ list not found')
        return
    names = [e.value for e in al[0].value.elts if isinstance(e, ast.Constant)]
    n = 0
    for nm in names:
        n += 1
        if nm == 'kn':
            ctx.check(rule, 'special.py:__all__#kn', m.has_func('kn'), 'kn defined here', 'kn missing')
            continue
        src = m.aliases.get(nm)
        ctx.check(rule, 'special.py:__all__#%s' % nm, src == 'autograd.scipy.special.' + nm, 'imported from autograd.scipy.special (analytic derivative registered there)',
                  '%s is re-exported from %s: no analytic derivative is propagated' % (nm, src))
    ctx.floor('re-exported special functions', n, 25)
    # the analytic derivatives of the re-exports are those registered by autograd: a local defvjp / defjvp for anything but the
    # primitives defined in this module replaces them
    own = {q for q, _ in m.functions() if '.' not in q}
    regs = [c for c in ast.walk(m.tree) if isinstance(c, ast.Call) and call_name(c) in ('defvjp', 'defjvp', 'defvjp_argnums', 'defvjp_argnum') and c.args]
    for c in regs:
        tgt = unparse(c.args[0])
        ctx.check(rule, 'special.py:defvjp(%s)#own-primitive' % tgt, tgt in own, 'derivative rules are registered for the primitives defined here only',
                  'a derivative rule is registered for the re-exported function `%s`: it replaces the analytic derivative that autograd ships (and is checked nowhere)' % tgt, m.loc(c))


def run(ctx):
    ctx.rule('C20-D1', 'Euclidean Clifford algebra, hermiticity, gamma5 (exhaustive)')
    ctx.rule('C20-D2', 'Grid_gamma tag table (exhaustive)')
    ctx.rule('C20-D3', 'epsilon tensors: values on the whole domain, rejection outside')
    ctx.rule('C20-D4', 'kn: value, integer guard, vjp = exact derivative')
    ctx.rule('C20-D5', 're-exports come from autograd.scipy.special')
    ctx.not_decided += ['numerical accuracy of scipy Bessel functions']
    m = ctx.repo.mod('dirac')
    fold = Fold(m)
    r = ctx.guarded('C20-D1', 'dirac.py@clifford', d1_clifford, ctx, m, fold)
    if r is not None:
        ctx.guarded('C20-D2', 'dirac.py:Grid_gamma', d2_grid, ctx, m, fold, r[0], r[1])
    ctx.guarded('C20-D3', 'dirac.py@epsilon', d3_epsilon, ctx, m)
    ctx.guarded('C20-D4', 'special.py:kn', d4_kn, ctx)
    ctx.guarded('C20-D5', 'special.py@reexports', d5_reexports, ctx)


SELFTEST = [
    ('grid-gamma-memoised', 'pyerrors/dirac.py', 'def Grid_gamma(gamma_tag):', 'import functools\n\n\n@functools.lru_cache(maxsize=None)\ndef Grid_gamma(gamma_tag):', 'C20-D2'),
    ('benign-minus-prefix', 'pyerrors/dirac.py', "    if gamma_tag == 'Identity':", "    minus = gamma_tag.startswith('Minus')\n    if minus:\n        gamma_tag = gamma_tag[5:]\n    if gamma_tag == 'Identity':", 'BENIGN'),
    ('minus-inplace', 'pyerrors/dirac.py', "        raise ValueError('Unkown gamma structure', gamma_tag)\n", "        raise ValueError('Unkown gamma structure', gamma_tag)\n    if gamma_tag.endswith('5'):\n        g *= -1\n        g *= -1\n", 'C20-D2'),
    ('benign-grid-table', 'pyerrors/dirac.py', "    if gamma_tag == 'Identity':\n        g = identity", "    if gamma_tag in ('Identity', 'One'):\n        g = identity.copy()", 'BENIGN'),
    ('grid-inplace-sign', 'pyerrors/dirac.py', "    elif gamma_tag == 'Gamma5':\n        g = gamma5", "    elif gamma_tag == 'Gamma5':\n        g = gamma5\n        g *= 1", 'C20-D2'),
    ('benign-sigma-via-helper', 'pyerrors/dirac.py', 'def Grid_gamma(gamma_tag):\n    """Returns gamma matrix in Grid labeling."""\n    if gamma_tag == \'Identity\':\n        g = identity\n    elif gamma_tag == \'Gamma5\':\n        g = gamma5\n    elif gamma_tag == \'GammaX\':\n        g = gamma[0]\n    elif gamma_tag == \'GammaY\':\n        g = gamma[1]\n    elif gamma_tag == \'GammaZ\':\n        g = gamma[2]\n    elif gamma_tag == \'GammaT\':\n        g = gamma[3]\n    elif gamma_tag == \'GammaXGamma5\':\n        g = gamma[0] @ gamma5\n    elif gamma_tag == \'GammaYGamma5\':\n        g = gamma[1] @ gamma5\n    elif gamma_tag == \'GammaZGamma5\':\n        g = gamma[2] @ gamma5\n    elif gamma_tag == \'GammaTGamma5\':\n        g = gamma[3] @ gamma5\n    elif gamma_tag == \'SigmaXT\':\n        g = 0.5 * (gamma[0] @ gamma[3] - gamma[3] @ gamma[0])\n    elif gamma_tag == \'SigmaXY\':\n        g = 0.5 * (gamma[0] @ gamma[1] - gamma[1] @ gamma[0])\n    elif gamma_tag == \'SigmaXZ\':\n        g = 0.5 * (gamma[0] @ gamma[2] - gamma[2] @ gamma[0])\n    elif gamma_tag == \'SigmaYT\':\n        g = 0.5 * (gamma[1] @ gamma[3] - gamma[3] @ gamma[1])\n    elif gamma_tag == \'SigmaYZ\':\n        g = 0.5 * (gamma[1] @ gamma[2] - gamma[2] @ gamma[1])\n    elif gamma_tag == \'SigmaZT\':\n        g = 0.5 * (gamma[2] @ gamma[3] - gamma[3] @ gamma[2])\n', 'def _sig(mu, nu):\n    return 0.5 * (gamma[mu] @ gamma[nu] - gamma[nu] @ gamma[mu])\n\n\ndef Grid_gamma(gamma_tag):\n    """Returns gamma matrix in Grid labeling."""\n    if gamma_tag == \'Identity\':\n        g = identity\n    elif gamma_tag == \'Gamma5\':\n        g = gamma5\n    elif gamma_tag == \'GammaX\':\n        g = gamma[0]\n    elif gamma_tag == \'GammaY\':\n        g = gamma[1]\n    elif gamma_tag == \'GammaZ\':\n        g = gamma[2]\n    elif gamma_tag == \'GammaT\':\n        g = gamma[3]\n    elif gamma_tag == \'GammaXGamma5\':\n        g = gamma[0] @ gamma5\n    elif gamma_tag == \'GammaYGamma5\':\n        g = gamma[1] @ gamma5\n    elif gamma_tag == \'GammaZGamma5\':\n        g = gamma[2] @ gamma5\n    elif gamma_tag == \'GammaTGamma5\':\n        g = gamma[3] @ gamma5\n    elif gamma_tag == \'SigmaXT\':\n        g = _sig(0, 3)\n    elif gamma_tag == \'SigmaXY\':\n        g = _sig(0, 1)\n    elif gamma_tag == \'SigmaXZ\':\n        g = _sig(0, 2)\n    elif gamma_tag == \'SigmaYT\':\n        g = _sig(1, 3)\n    elif gamma_tag == \'SigmaYZ\':\n        g = _sig(1, 2)\n    elif gamma_tag == \'SigmaZT\':\n        g = _sig(2, 3)\n', 'BENIGN'),
    ('sigma-via-helper-one-swapped', 'pyerrors/dirac.py', 'def Grid_gamma(gamma_tag):\n    """Returns gamma matrix in Grid labeling."""\n    if gamma_tag == \'Identity\':\n        g = identity\n    elif gamma_tag == \'Gamma5\':\n        g = gamma5\n    elif gamma_tag == \'GammaX\':\n        g = gamma[0]\n    elif gamma_tag == \'GammaY\':\n        g = gamma[1]\n    elif gamma_tag == \'GammaZ\':\n        g = gamma[2]\n    elif gamma_tag == \'GammaT\':\n        g = gamma[3]\n    elif gamma_tag == \'GammaXGamma5\':\n        g = gamma[0] @ gamma5\n    elif gamma_tag == \'GammaYGamma5\':\n        g = gamma[1] @ gamma5\n    elif gamma_tag == \'GammaZGamma5\':\n        g = gamma[2] @ gamma5\n    elif gamma_tag == \'GammaTGamma5\':\n        g = gamma[3] @ gamma5\n    elif gamma_tag == \'SigmaXT\':\n        g = 0.5 * (gamma[0] @ gamma[3] - gamma[3] @ gamma[0])\n    elif gamma_tag == \'SigmaXY\':\n        g = 0.5 * (gamma[0] @ gamma[1] - gamma[1] @ gamma[0])\n    elif gamma_tag == \'SigmaXZ\':\n        g = 0.5 * (gamma[0] @ gamma[2] - gamma[2] @ gamma[0])\n    elif gamma_tag == \'SigmaYT\':\n        g = 0.5 * (gamma[1] @ gamma[3] - gamma[3] @ gamma[1])\n    elif gamma_tag == \'SigmaYZ\':\n        g = 0.5 * (gamma[1] @ gamma[2] - gamma[2] @ gamma[1])\n    elif gamma_tag == \'SigmaZT\':\n        g = 0.5 * (gamma[2] @ gamma[3] - gamma[3] @ gamma[2])\n', 'def _sig(mu, nu):\n    return 0.5 * (gamma[mu] @ gamma[nu] - gamma[nu] @ gamma[mu])\n\n\ndef Grid_gamma(gamma_tag):\n    """Returns gamma matrix in Grid labeling."""\n    if gamma_tag == \'Identity\':\n        g = identity\n    elif gamma_tag == \'Gamma5\':\n        g = gamma5\n    elif gamma_tag == \'GammaX\':\n        g = gamma[0]\n    elif gamma_tag == \'GammaY\':\n        g = gamma[1]\n    elif gamma_tag == \'GammaZ\':\n        g = gamma[2]\n    elif gamma_tag == \'GammaT\':\n        g = gamma[3]\n    elif gamma_tag == \'GammaXGamma5\':\n        g = gamma[0] @ gamma5\n    elif gamma_tag == \'GammaYGamma5\':\n        g = gamma[1] @ gamma5\n    elif gamma_tag == \'GammaZGamma5\':\n        g = gamma[2] @ gamma5\n    elif gamma_tag == \'GammaTGamma5\':\n        g = gamma[3] @ gamma5\n    elif gamma_tag == \'SigmaXT\':\n        g = _sig(0, 3)\n    elif gamma_tag == \'SigmaXY\':\n        g = _sig(0, 1)\n    elif gamma_tag == \'SigmaXZ\':\n        g = _sig(0, 2)\n    elif gamma_tag == \'SigmaYT\':\n        g = _sig(1, 3)\n    elif gamma_tag == \'SigmaYZ\':\n        g = _sig(2, 1)\n    elif gamma_tag == \'SigmaZT\':\n        g = _sig(2, 3)\n', 'C20-D2'),
    ('gamma-entry-sign', 'pyerrors/dirac.py', "[[0, 0, 1j, 0], [0, 0, 0, -1j], [-1j, 0, 0, 0], [0, 1j, 0, 0]]", "[[0, 0, 1j, 0], [0, 0, 0, 1j], [-1j, 0, 0, 0], [0, -1j, 0, 0]]", None),
    ('gamma5-sign', 'pyerrors/dirac.py', "[[1, 0, 0, 0], [0, 1, 0, 0], [0, 0, -1, 0], [0, 0, 0, -1]]", "[[-1, 0, 0, 0], [0, -1, 0, 0], [0, 0, 1, 0], [0, 0, 0, 1]]", 'C20-D1'),
    ('sigma-swapped', 'pyerrors/dirac.py', "g = 0.5 * (gamma[0] @ gamma[2] - gamma[2] @ gamma[0])", "g = 0.5 * (gamma[0] @ gamma[1] - gamma[1] @ gamma[0])", 'C20-D2'),
    ('sigma-order', 'pyerrors/dirac.py', "g = 0.5 * (gamma[1] @ gamma[3] - gamma[3] @ gamma[1])", "g = 0.5 * (gamma[3] @ gamma[1] - gamma[1] @ gamma[3])", 'C20-D2'),
    ('g5-product-order', 'pyerrors/dirac.py', "        g = gamma[2] @ gamma5", "        g = gamma5 @ gamma[2]", 'C20-D2'),
    ('tag-axis', 'pyerrors/dirac.py', "    elif gamma_tag == 'GammaY':\n        g = gamma[1]", "    elif gamma_tag == 'GammaY':\n        g = gamma[2]", 'C20-D2'),
    ('epsilon-divisor', 'pyerrors/dirac.py', "(i - o) * (j - o) * (o - k) / 12", "(i - o) * (j - o) * (o - k) / 6", 'C20-D3'),
    ('epsilon-sign', 'pyerrors/dirac.py', "return (i - j) * (j - k) * (k - i) / 2", "return (i - j) * (j - k) * (i - k) / 2", 'C20-D3'),
    ('epsilon-window', 'pyerrors/dirac.py', "if not (test_set <= set((1, 2, 3)) or test_set <= set((0, 1, 2))):", "if not (test_set <= set((1, 2, 3)) or test_set <= set((0, 1, 2, 3))):", 'C20-D3'),
    ('kn-sign', 'pyerrors/special.py', "lambda g: - g * 0.5 * (kn(np.abs(n - 1), x) + kn(n + 1, x))", "lambda g: g * 0.5 * (kn(np.abs(n - 1), x) + kn(n + 1, x))", 'C20-D4'),
    ('kn-order', 'pyerrors/special.py', "lambda g: - g * 0.5 * (kn(np.abs(n - 1), x) + kn(n + 1, x))", "lambda g: - g * 0.5 * (kn(np.abs(n - 1), x) + kn(n + 2, x))", 'C20-D4'),
    ('kn-cotangent-partial', 'pyerrors/special.py', "lambda g: - g * 0.5 * (kn(np.abs(n - 1), x) + kn(n + 1, x))", "lambda g: - g * kn(np.abs(n - 1), x) - n / x * ans", 'C20-D4'),
    ('benign-kn-recurrence', 'pyerrors/special.py', "lambda g: - g * 0.5 * (kn(np.abs(n - 1), x) + kn(n + 1, x))", "lambda g: - g * (kn(np.abs(n - 1), x) + n / x * ans)", 'BENIGN'),
    ('kn-slot', 'pyerrors/special.py', "defvjp(kn, None, lambda ans, n, x:", "defvjp(kn, lambda ans, n, x: lambda g: 0 * g, lambda ans, n, x:", 'C20-D4'),
    ('reexport-plain-scipy', 'pyerrors/special.py', "from autograd.scipy.special import erf, erfc, erfinv, erfcinv, logit, expit, logsumexp", "from autograd.scipy.special import erf, erfc, erfinv, erfcinv, logit, expit\nfrom scipy.special import logsumexp", 'C20-D5'),
    ('benign-sigma-rewrite', 'pyerrors/dirac.py', "g = 0.5 * (gamma[0] @ gamma[2] - gamma[2] @ gamma[0])", "g = gamma[0] @ gamma[2]", 'BENIGN'),
]
