"""Sample reconstruction rule: a fluctuation array X.deltas[K] may only be combined (by +) with the replica mean of the same
object and chain, X.r_values[K] (or a value derived from it).  Adding X.value, the mean of another chain or of another object
reconstructs wrong samples whenever replica means differ."""
import ast

from .srcmodel import unparse, walk


def _delta_ref(e):
    if isinstance(e, ast.Subscript) and isinstance(e.value, ast.Subscript):
        # X.deltas[K][i]
        inner = _delta_ref(e.value)
        if inner:
            return inner
    if isinstance(e, ast.Subscript) and isinstance(e.value, ast.Attribute) and e.value.attr == 'deltas':
        return unparse(e.value.value), unparse(e.slice)
    if isinstance(e, ast.Call) and isinstance(e.func, ast.Attribute) and e.func.attr == 'get' and isinstance(e.func.value, ast.Attribute) and e.func.value.attr == 'deltas' and e.args:
        return unparse(e.func.value.value), unparse(e.args[0])
    return None


def _mean_ref(e):
    """(object, kind, key) for X.r_values[K] / X.r_values.get(K, d) / X.value / X._value"""
    if isinstance(e, ast.Subscript) and isinstance(e.value, ast.Attribute) and e.value.attr == 'r_values':
        return unparse(e.value.value), 'r_values', unparse(e.slice)
    if isinstance(e, ast.Call) and isinstance(e.func, ast.Attribute) and e.func.attr == 'get' and isinstance(e.func.value, ast.Attribute) and e.func.value.attr == 'r_values' and e.args:
        return unparse(e.func.value.value), 'r_values', unparse(e.args[0])
    if isinstance(e, ast.Attribute) and e.attr in ('value', '_value'):
        return unparse(e.value), e.attr, None
    return None


def check(ctx, rule, mod, funcs=None):
    """funcs: iterable of qualnames (None = whole module)"""
    n = 0
    for q, f in mod.functions():
        if funcs is not None and q not in funcs:
            continue
        for c in walk(f):
            if not (isinstance(c, ast.BinOp) and isinstance(c.op, ast.Add)):
                continue
            for a, b in ((c.left, c.right), (c.right, c.left)):
                d = _delta_ref(a)
                if not d:
                    continue
                m = _mean_ref(b)
                if m is None:
                    continue
                n += 1
                key = '%s:%s#%s' % (mod.relpath.replace('pyerrors/', ''), q, unparse(c)[:80])
                ok = m[1] == 'r_values' and m[0] == d[0] and m[2] == d[1]
                ctx.check(rule, key, ok, 'sample = fluctuation + replica mean of the same object and chain',
                          'the fluctuations %s.deltas[%s] are combined with %s: samples of a chain are fluctuation + the replica mean of that chain of the same object' % (d[0], d[1], unparse(b)), mod.loc(c))
    return n
