"""Search loops that give up at the first candidate.

A loop that looks for the one element of a sequence that satisfies a test has this shape: `for x in S: if T(x): <remember>; break`,
and what it does when NO element satisfies T comes after the loop (for-else, or a test of the remembered value).  When the
not-found action (a `raise`) sits in the else-branch of the per-candidate test, the first candidate that fails the test ends the
search: every element after the first can never be found.  For the file readers this means that only the first block of a file
(first correlator, first record) can be read, although the documented selection is by pattern.

The rule is structural and exact:
  VIOLATED   an `if T: ... break` directly in a loop (possibly under the if/elif that recognises a candidate) whose else-branch
             ends in `raise`, and T depends on the loop variable or on something assigned from it in the loop body
  HOLDS      every `if T: ... break` search test in the module whose not-found action is outside the per-candidate test
Instances (search tests with a break) are counted for the floor.
"""
import ast

from .srcmodel import unparse, walk


def _loop_of(mod, node, stop):
    q = mod.parents.get(node)
    while q is not None and q is not stop:
        if isinstance(q, (ast.For, ast.While)):
            return q
        if isinstance(q, (ast.FunctionDef, ast.AsyncFunctionDef, ast.Lambda, ast.ClassDef)):
            return None
        q = mod.parents.get(q)
    return None


def _depends_on_loop(loop, test):
    if not isinstance(loop, ast.For):
        return True
    tainted = {n.id for n in ast.walk(loop.target) if isinstance(n, ast.Name)}
    changed = True
    while changed:
        changed = False
        for st in ast.walk(loop):
            if isinstance(st, (ast.Assign, ast.AugAssign, ast.AnnAssign)):
                val = st.value
                tg = st.targets if isinstance(st, ast.Assign) else [st.target]
                if val is not None and any(isinstance(n, ast.Name) and n.id in tainted for n in ast.walk(val)) or isinstance(st, ast.AugAssign) and any(
                        isinstance(n, ast.Name) and n.id in tainted for t in tg for n in ast.walk(t)):
                    for t in tg:
                        for n in ast.walk(t):
                            if isinstance(n, ast.Name) and isinstance(n.ctx, ast.Store) and n.id not in tainted:
                                tainted.add(n.id)
                                changed = True
            if isinstance(st, ast.For) and st is not loop and any(isinstance(n, ast.Name) and n.id in tainted for n in ast.walk(st.iter)):
                for n in ast.walk(st.target):
                    if isinstance(n, ast.Name) and n.id not in tainted:
                        tainted.add(n.id)
                        changed = True
    return any(isinstance(n, ast.Name) and n.id in tainted for n in ast.walk(test))


def check(ctx, rule, mod, funcs=None):
    """returns the number of search tests (if ...: break) examined"""
    n = 0
    for q_, f in mod.functions():
        if funcs is not None and q_ not in funcs:
            continue
        for node in walk(f):
            if mod.enclosing_func(node) is not f:
                continue
            if not (isinstance(node, ast.If) and node.body and isinstance(node.body[-1], ast.Break)):
                continue
            loop = _loop_of(mod, node, f)
            if loop is None:
                continue
            n += 1
            key = '%s:%s#search[%s]' % (mod.relpath.replace('pyerrors/', ''), q_, unparse(node.test)[:40])
            gives_up = bool(node.orelse) and isinstance(node.orelse[-1], ast.Raise) and _depends_on_loop(loop, node.test)
            if gives_up:
                ctx.violated(rule, key, 'the search loop over `%s` raises `%s` as soon as ONE candidate fails `%s`: only the first candidate can ever be found, every later '
                             'block / record that the documented selection names is reported as missing' % (
                                 unparse(loop.iter) if isinstance(loop, ast.For) else unparse(loop.test), unparse(node.orelse[-1])[:70], unparse(node.test)[:50]), mod.loc(node))
            else:
                ctx.holds(rule, key, 'a candidate that fails the test is skipped; the not-found action is outside the per-candidate test')
    return n


def none_ends_scan(ctx, rule, mod):
    """`for t in ...: if X[t] is None: break` - an undefined element ends the scan, the defined elements after it are never looked at.
    The code base skips undefined timeslices with `continue`; a `break` on the None test is VIOLATED unless nothing but the end of
    the function follows the loop and the loop body has no other effect (then it is an early exit of a search, covered by check())."""
    n = 0
    for q_, f in mod.functions():
        for node in walk(f):
            if mod.enclosing_func(node) is not f or not (isinstance(node, ast.If) and len(node.body) == 1 and isinstance(node.body[0], ast.Break) and not node.orelse):
                continue
            t = node.test
            if not (isinstance(t, ast.Compare) and len(t.ops) == 1 and isinstance(t.ops[0], ast.Is) and isinstance(t.comparators[0], ast.Constant) and t.comparators[0].value is None):
                continue
            loop = _loop_of(mod, node, f)
            if loop is None or not isinstance(loop, ast.For) or not _depends_on_loop(loop, t):
                continue
            n += 1
            ctx.violated(rule, '%s:%s#none-ends-scan[%s]' % (mod.relpath.replace('pyerrors/', ''), q_, unparse(t)[:40]),
                         'the loop over `%s` stops at the first undefined element (`if %s: break`): the defined elements after it are never examined, an undefined first '
                         'timeslice / padding hides everything behind it' % (unparse(loop.iter), unparse(t)), mod.loc(node))
    return n
