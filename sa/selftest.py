"""Self-test of the checker (exercises the checker, not the repository).

Each variant = (property, name, file, old text, new text[, expected rule]).  The edit is applied to a
scratch copy of $VERIF_REPO/pyerrors (outside /repo and /verif), the variant must still compile, and
the owning check must exit 1 naming the expected rule.  A variant whose site no longer exists is
skipped and counted.  `benign` variants are behaviour preserving edits and must exit 0.
"""
import ast
import concurrent.futures as cf
import importlib
import os
import shutil
import subprocess
import sys
import tempfile

VERIF = os.path.dirname(os.path.dirname(os.path.abspath(__file__)))


def corpus():
    out = []
    rules = os.path.join(VERIF, 'sa', 'rules')
    for fn in sorted(os.listdir(rules)):
        if fn.startswith('C') and fn.endswith('.py'):
            try:
                m = importlib.import_module('sa.rules.' + fn[:-3])
            except Exception as e:
                print('cannot import', fn, e)
                continue
            for v in getattr(m, 'SELFTEST', []):
                out.append((fn[:-3],) + tuple(v))
    return out


def run_variant(v):
    pid, name, relfile, old, new = v[:5]
    expect = v[5] if len(v) > 5 else None
    benign = expect == 'BENIGN'
    repo = os.environ.get('VERIF_REPO', '/repo')
    src = os.path.join(repo, relfile)
    try:
        text = open(src).read()
    except OSError:
        return (pid, name, 'skipped', 'file missing')
    if text.count(old) != 1 and not (name.startswith('all:') and text.count(old) > 1):
        return (pid, name, 'skipped', 'site not found exactly once (%d)' % text.count(old))
    mutated = text.replace(old, new)
    try:
        ast.parse(mutated)
    except SyntaxError as e:
        return (pid, name, 'broken-variant', str(e))
    tmp = tempfile.mkdtemp(prefix='pyerr_selftest_')
    try:
        shutil.copytree(os.path.join(repo, 'pyerrors'), os.path.join(tmp, 'pyerrors'), ignore=shutil.ignore_patterns('__pycache__'))
        if os.path.isdir(os.path.join(repo, 'examples')):
            os.makedirs(os.path.join(tmp, 'examples'), exist_ok=True)
            for f in os.listdir(os.path.join(repo, 'examples')):
                if f.endswith('.json'):
                    shutil.copy(os.path.join(repo, 'examples', f), os.path.join(tmp, 'examples', f))
        with open(os.path.join(tmp, relfile), 'w') as fh:
            fh.write(mutated)
        env = dict(os.environ, VERIF_REPO=tmp, VERIF_EVIDENCE_DIR=os.path.join(tmp, 'evidence'), VERIF_OUT_DIR=os.path.join(tmp, 'out'), VERIF_TIER='quick')
        try:
            p = subprocess.run([os.path.join(VERIF, 'check'), pid, '--tier', 'quick'], env=env, capture_output=True, text=True, timeout=120)
        except subprocess.TimeoutExpired:
            return (pid, name, 'TIMEOUT', 'check did not finish in 120 s')
        outp = p.stdout + p.stderr
        if benign:
            return (pid, name, 'ok' if p.returncode == 0 else 'FALSE-ALARM', 'exit %d' % p.returncode + ('' if p.returncode == 0 else '\n' + outp[-1500:]))
        if p.returncode == 1 and 'VIOLATION property=%s' % pid in outp:
            if expect and expect not in outp:
                return (pid, name, 'WRONG-RULE', 'expected %s\n%s' % (expect, outp[-800:]))
            return (pid, name, 'detected', '')
        return (pid, name, 'MISSED', 'exit %d\n%s' % (p.returncode, outp[-1200:]))
    finally:
        shutil.rmtree(tmp, ignore_errors=True)


def main(args):
    only = args[0] if args else None
    vs = [v for v in corpus() if only is None or v[0] == only]
    bad = 0
    counts = {}
    with cf.ThreadPoolExecutor(max_workers=int(os.environ.get('VERIF_JOBS', '14'))) as ex:
        for pid, name, status, detail in ex.map(run_variant, vs):
            counts[status] = counts.get(status, 0) + 1
            print('%-4s %-45s %s' % (pid, name, status))
            if status not in ('detected', 'ok', 'skipped'):
                bad += 1
                print('     ' + detail.replace('\n', '\n     '))
    print('selftest: %d variants: %s' % (len(vs), counts))
    return 1 if bad else 0


def summary_for(pid):
    """run the variants of one property (used by the thorough tier; never changes the exit status of a property check)"""
    vs = [v for v in corpus() if v[0] == pid]
    counts = {}
    missed = []
    with cf.ThreadPoolExecutor(max_workers=int(os.environ.get('VERIF_JOBS', '14'))) as ex:
        for p_, name, status, detail in ex.map(run_variant, vs):
            counts[status] = counts.get(status, 0) + 1
            if status not in ('detected', 'ok', 'skipped'):
                missed.append(name)
    return {'variants': len(vs), 'counts': counts, 'not_detected': missed}
