"""Source model of the analysed repository.

Parses every module of $VERIF_REPO/pyerrors on each run (nothing is imported or
executed).  Provides: qualified-name lookup of functions / methods / nested
functions, import-alias resolution of dotted call targets, a package call graph
(name based, see DESIGN.md section 2) and small AST utilities shared by the rules.
"""
import ast
import hashlib
import os


class AnchorMissing(Exception):
    """An anchor (module, function, statement) the rule relies on is not there."""


class Unrecognised(Exception):
    """The code has a shape the rule does not understand (neither holds nor violated)."""


FuncTypes = (ast.FunctionDef, ast.AsyncFunctionDef, ast.Lambda)


class Module:
    def __init__(self, name, path, relpath):
        self.name = name              # e.g. 'obs', 'input.json'
        self.path = path
        self.relpath = relpath        # e.g. 'pyerrors/obs.py'
        with open(path, encoding='utf-8') as fh:
            self.src = fh.read()
        from . import normalise
        self.tree, self.normalised = normalise.parse_normalised(self.src, path, relpath)   # locals renamed back to reference names, refactorings restored
        self.digest = hashlib.sha256(self.src.encode()).hexdigest()[:16]
        self.aliases = {}             # local name -> dotted real name
        self.defs = {}                # qualname -> node (FunctionDef / ClassDef)
        self.parents = {}
        self._index()

    def text(self, func, literal=()):
        """statement / expression presence modulo renaming of locals and temporaries (sa/pat.py Text)"""
        from . import pat
        return pat.Text(self.tree, func, literal)

    def _index(self):
        for node in ast.walk(self.tree):
            for ch in ast.iter_child_nodes(node):
                self.parents[ch] = node
        pkgparts = ['pyerrors'] + self.name.split('.')[:-1]
        for node in ast.walk(self.tree):
            if isinstance(node, ast.Import):
                for a in node.names:
                    self.aliases[a.asname or a.name.split('.')[0]] = a.name if a.asname else a.name.split('.')[0]
            elif isinstance(node, ast.ImportFrom):
                if node.level:
                    base = pkgparts[:len(pkgparts) - (node.level - 1)]
                    modname = '.'.join(base + ([node.module] if node.module else []))
                else:
                    modname = node.module or ''
                for a in node.names:
                    self.aliases[a.asname or a.name] = modname + '.' + a.name

        def rec(node, prefix):
            for ch in ast.iter_child_nodes(node):
                if isinstance(ch, (ast.FunctionDef, ast.AsyncFunctionDef, ast.ClassDef)):
                    q = prefix + ch.name
                    # first definition wins for lookup, later duplicates get a suffix
                    if q in self.defs:
                        k = 2
                        while '%s#%d' % (q, k) in self.defs:
                            k += 1
                        q = '%s#%d' % (q, k)
                    self.defs[q] = ch
                    rec(ch, q.split('#')[0] + '.')
                else:
                    rec(ch, prefix)
        rec(self.tree, '')

    # ---- lookups -------------------------------------------------------
    def func(self, qualname):
        node = self.defs.get(qualname)
        if node is None or not isinstance(node, (ast.FunctionDef, ast.AsyncFunctionDef)):
            raise AnchorMissing('%s: function %s not found' % (self.relpath, qualname))
        return node

    def has_func(self, qualname):
        node = self.defs.get(qualname)
        return isinstance(node, (ast.FunctionDef, ast.AsyncFunctionDef))

    def cls(self, name):
        node = self.defs.get(name)
        if not isinstance(node, ast.ClassDef):
            raise AnchorMissing('%s: class %s not found' % (self.relpath, name))
        return node

    def functions(self):
        """(qualname, node) of every def in the module (nested ones included)."""
        return [(q, n) for q, n in self.defs.items() if isinstance(n, (ast.FunctionDef, ast.AsyncFunctionDef))]

    def methods(self, clsname):
        c = self.cls(clsname)
        return [(n.name, n) for n in c.body if isinstance(n, (ast.FunctionDef, ast.AsyncFunctionDef))]

    def qualname_of(self, node):
        for q, n in self.defs.items():
            if n is node:
                return q
        return None

    def enclosing_func(self, node):
        p = self.parents.get(node)
        while p is not None and not isinstance(p, (ast.FunctionDef, ast.AsyncFunctionDef)):
            p = self.parents.get(p)
        return p

    def enclosing_qualname(self, node):
        f = self.enclosing_func(node)
        return self.qualname_of(f) if f is not None else '<module>'

    def dotted(self, node):
        """Resolve Name/Attribute chain to a dotted real name using import aliases.
        Returns None if the chain does not start at a plain name."""
        parts = []
        while isinstance(node, ast.Attribute):
            parts.append(node.attr)
            node = node.value
        if not isinstance(node, ast.Name):
            return None
        head = self.aliases.get(node.id, node.id)
        return '.'.join([head] + parts[::-1])

    def loc(self, node):
        return '%s:%d' % (self.relpath, getattr(node, 'lineno', 0))


def _always_exits(stmts):
    if not stmts:
        return False
    last = stmts[-1]
    if isinstance(last, (ast.Raise, ast.Return, ast.Continue, ast.Break)):
        return True
    if isinstance(last, ast.If):
        return _always_exits(last.body) and _always_exits(last.orelse)
    return False


def dezip_view(mod, func):
    """a copy of the function in which every comprehension / loop over zip(A, B, ...) of plain names with plain-name targets is written
    as the index form: `for a, b in zip(A, B)` -> `for rep in range(len(A))` with a -> A[rep], b -> B[rep].  A *reading aid* for rules
    that compare per-element expressions (which element of which list meets which); parents of the copy are registered in mod.parents."""
    import copy as _copy
    new = _copy.deepcopy(func)
    k = 0
    for n in list(ast.walk(new)):
        gens = n.generators if isinstance(n, (ast.ListComp, ast.GeneratorExp, ast.SetComp, ast.DictComp)) else ([n] if isinstance(n, ast.For) else [])
        for g in gens:
            it = g.iter
            own_index = None
            # for t, (a, b) in enumerate(zip(A, B)): the counter is the index
            if isinstance(it, ast.Call) and isinstance(it.func, ast.Name) and it.func.id == 'enumerate' and len(it.args) == 1 and not it.keywords and isinstance(g.target, ast.Tuple) \
                    and len(g.target.elts) == 2 and isinstance(g.target.elts[0], ast.Name) and isinstance(g.target.elts[1], ast.Tuple) and isinstance(it.args[0], ast.Call) \
                    and isinstance(it.args[0].func, ast.Name) and it.args[0].func.id == 'zip':
                z_ = it.args[0]
                tg_ = g.target.elts[1]
                if len(tg_.elts) == len(z_.args) >= 2 and all(isinstance(t, ast.Name) for t in tg_.elts) and all(isinstance(a, (ast.Name, ast.Attribute)) for a in z_.args):
                    own_index = g.target.elts[0].id
                    g.target = tg_
                    it = z_
            if not (isinstance(it, ast.Call) and isinstance(it.func, ast.Name) and it.func.id == 'zip' and isinstance(g.target, ast.Tuple) and len(g.target.elts) == len(it.args) >= 2
                    and all(isinstance(t, ast.Name) for t in g.target.elts) and all(isinstance(a, (ast.Name, ast.Attribute)) for a in it.args)):
                continue
            k += 1
            iv = own_index or ('rep' if k == 1 else 'rep%d' % k)
            sub = {t.id: '%s[%s]' % (ast.unparse(a), iv) for t, a in zip(g.target.elts, it.args)}

            class R(ast.NodeTransformer):
                def visit_Name(self, x):
                    if x.id in sub and isinstance(x.ctx, ast.Load):
                        return ast.copy_location(ast.parse(sub[x.id], mode='eval').body, x)
                    return x
            owner = n
            if isinstance(n, ast.For):
                n.body = [R().visit(b) for b in n.body]
            else:
                if isinstance(n, ast.DictComp):
                    n.key, n.value = R().visit(n.key), R().visit(n.value)
                else:
                    n.elt = R().visit(n.elt)
                g.ifs = [R().visit(i) for i in g.ifs]
            g.target = ast.copy_location(ast.Name(id=iv, ctx=ast.Store()), g.target)
            g.iter = ast.copy_location(ast.parse('range(len(%s))' % ast.unparse(it.args[0]), mode='eval').body, it)
    ast.fix_missing_locations(new)
    for n in ast.walk(new):
        for ch in ast.iter_child_nodes(n):
            mod.parents[ch] = n
    return new, k


def established_false(mod, func, node):
    """tests known to be false when `node` executes: enclosing if/elif tests with negative polarity and the tests of preceding
    sibling if/elif chains (in any enclosing block of the function) whose branch leaves the block (raise/return/continue/break)"""
    out = [t for t, pol in guards_of(mod, node, stop=func) if not pol]
    cur = node
    while cur is not func and cur is not None:
        par = mod.parents.get(cur)
        if par is None:
            break
        for field in ('body', 'orelse', 'finalbody'):
            blk = getattr(par, field, None)
            if isinstance(blk, list) and cur in blk:
                for prev in blk[:blk.index(cur)]:
                    x = prev
                    while isinstance(x, ast.If):
                        if _always_exits(x.body):
                            out.append(x.test)
                        else:
                            break
                        x = x.orelse[0] if len(x.orelse) == 1 and isinstance(x.orelse[0], ast.If) else None
        cur = par
    return out


class Repo:
    def __init__(self, root=None):
        self.root = root or os.environ.get('VERIF_REPO', '/repo')
        self.pkg = os.path.join(self.root, 'pyerrors')
        if not os.path.isdir(self.pkg):
            raise AnchorMissing('package directory %s not found' % self.pkg)
        self.modules = {}
        for dirpath, dirnames, filenames in os.walk(self.pkg):
            dirnames[:] = sorted(d for d in dirnames if d != '__pycache__')
            for fn in sorted(filenames):
                if not fn.endswith('.py'):
                    continue
                path = os.path.join(dirpath, fn)
                rel = os.path.relpath(path, self.root)
                name = os.path.relpath(path, self.pkg)[:-3].replace(os.sep, '.')
                self.modules[name] = Module(name, path, rel)

    def mod(self, name):
        m = self.modules.get(name)
        if m is None:
            raise AnchorMissing('module pyerrors/%s.py not found' % name.replace('.', '/'))
        return m

    def func(self, modname, qualname):
        return self.mod(modname).func(qualname)

    def n_functions(self):
        n = 0
        for m in self.modules.values():
            for node in ast.walk(m.tree):
                if isinstance(node, FuncTypes):
                    n += 1
        return n

    def stats(self):
        return {'modules': len(self.modules), 'functions_and_lambdas': self.n_functions(),
                'digest': hashlib.sha256(''.join(m.digest for m in self.modules.values()).encode()).hexdigest()[:16]}


# ------------------------------------------------------------------ utilities

def unparse(node):
    return ast.unparse(node) if node is not None else 'None'


def norm(node):
    """Normalised text of a node (whitespace / quoting independent)."""
    return ast.unparse(node)


def calls_in(node, skip_nested_defs=False):
    for n in walk(node, skip_nested_defs):
        if isinstance(n, ast.Call):
            yield n


def walk(node, skip_nested_defs=False):
    """ast.walk that can stop at nested function definitions (lambdas are kept)."""
    todo = [node]
    first = True
    while todo:
        n = todo.pop()
        if skip_nested_defs and not first and isinstance(n, (ast.FunctionDef, ast.AsyncFunctionDef, ast.ClassDef)):
            continue
        first = False
        yield n
        todo.extend(reversed(list(ast.iter_child_nodes(n))))


def call_name(call):
    """Trailing name of the callee: f(...) -> 'f', a.b.f(...) -> 'f'."""
    f = call.func
    if isinstance(f, ast.Name):
        return f.id
    if isinstance(f, ast.Attribute):
        return f.attr
    return None


def kwarg(call, name):
    for k in call.keywords:
        if k.arg == name:
            return k.value
    return None


def const(node):
    """Python value of a numeric literal expression (incl. unary minus), else None."""
    if isinstance(node, ast.Constant) and isinstance(node.value, (int, float, complex)) and not isinstance(node.value, bool):
        return node.value
    if isinstance(node, ast.UnaryOp) and isinstance(node.op, ast.USub):
        v = const(node.operand)
        return -v if v is not None else None
    if isinstance(node, ast.UnaryOp) and isinstance(node.op, ast.UAdd):
        return const(node.operand)
    return None


def assigned_names(target):
    out = []
    for n in ast.walk(target):
        if isinstance(n, ast.Name) and isinstance(n.ctx, ast.Store):
            out.append(n.id)
    return out


def statements(func, skip_nested_defs=True):
    """All statements of a function body in source order (nested bodies flattened)."""
    out = []

    def rec(stmts):
        for s in stmts:
            out.append(s)
            if skip_nested_defs and isinstance(s, (ast.FunctionDef, ast.AsyncFunctionDef, ast.ClassDef)):
                continue
            for fld in ('body', 'orelse', 'finalbody'):
                sub = getattr(s, fld, None)
                if isinstance(sub, list) and sub and isinstance(sub[0], ast.stmt):
                    rec(sub)
            if isinstance(s, ast.Try):
                for h in s.handlers:
                    rec(h.body)
            if hasattr(ast, 'Match') and isinstance(s, ast.Match):
                for c in s.cases:
                    rec(c.body)
    rec(func.body)
    return out


def guards_of(mod, node, stop=None):
    """List of (test_node, polarity) for the If/While/IfExp tests enclosing `node`
    up to (not including) `stop` (default: enclosing function)."""
    out = []
    child = node
    p = mod.parents.get(child)
    while p is not None and p is not stop and not isinstance(p, (ast.FunctionDef, ast.AsyncFunctionDef, ast.Lambda, ast.Module)):
        if isinstance(p, (ast.If, ast.While)):
            if child in p.body:
                out.append((p.test, True))
            elif child in p.orelse:
                out.append((p.test, False))
        elif isinstance(p, ast.IfExp):
            if child is p.body:
                out.append((p.test, True))
            elif child is p.orelse:
                out.append((p.test, False))
        child = p
        p = mod.parents.get(child)
    return out[::-1]
