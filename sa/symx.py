"""AST -> sympy translation and equality decision modulo algebra.

The translation is driven by an *atom table*: a callable `atoms(node)` that may map any
sub-expression (by shape) to a sympy term; everything else is translated
structurally.  Unknown constructs raise Unrecognised (never a violation).
"""
import ast
import random

import sympy as sp

from .srcmodel import Unrecognised, unparse

# functions of numpy / autograd.numpy / math that have an exact sympy counterpart
_FUNCS = {
    'sqrt': sp.sqrt, 'exp': sp.exp, 'log': sp.log, 'sin': sp.sin, 'cos': sp.cos, 'tan': sp.tan,
    'arcsin': sp.asin, 'arccos': sp.acos, 'arctan': sp.atan, 'sinh': sp.sinh, 'cosh': sp.cosh,
    'tanh': sp.tanh, 'arcsinh': sp.asinh, 'arccosh': sp.acosh, 'arctanh': sp.atanh,
    'abs': sp.Abs, 'absolute': sp.Abs, 'fabs': sp.Abs, 'square': lambda x: x ** 2,
    'asin': sp.asin, 'acos': sp.acos, 'atan': sp.atan, 'asinh': sp.asinh, 'acosh': sp.acosh, 'atanh': sp.atanh,
    'log10': lambda x: sp.log(x, 10), 'floor': sp.floor, 'ceil': sp.ceiling,
    'conj': sp.conjugate, 'conjugate': sp.conjugate, 'real': sp.re, 'imag': sp.im,
    'float': lambda x: x, 'int': lambda x: sp.floor(x),
}
_NUMERIC_MODULES = ('numpy', 'autograd.numpy', 'math', 'scipy', 'cmath')


class Translator:
    def __init__(self, mod=None, atoms=None, env=None, funcs=None, free='fresh', positive=True):
        """mod: srcmodel.Module for alias resolution; atoms: callable(node)->sympy|None;
        env: dict name->sympy term (inlined locals); free: 'fresh' creates a positive symbol
        for an unknown name, 'error' raises Unrecognised."""
        self.mod = mod
        self.atoms = atoms
        self.env = dict(env or {})
        self.funcs = dict(_FUNCS)
        if funcs:
            self.funcs.update(funcs)
        self.free = free
        self.positive = positive
        self.symbols = {}

    def sym(self, name):
        if name not in self.symbols:
            self.symbols[name] = sp.Symbol(name, positive=True) if self.positive else sp.Symbol(name, real=True)
        return self.symbols[name]

    def tr(self, node):
        if self.atoms is not None:
            r = self.atoms(node)
            if r is not None:
                return r
        m = getattr(self, 'tr_' + type(node).__name__, None)
        if m is None:
            raise Unrecognised('cannot translate %s: %s' % (type(node).__name__, unparse(node)))
        return m(node)

    def tr_Constant(self, node):
        v = node.value
        if isinstance(v, bool) or v is None or isinstance(v, (str, bytes)):
            raise Unrecognised('non numeric constant %r' % (v,))
        if isinstance(v, int):
            return sp.Integer(v)
        if isinstance(v, float):
            return sp.nsimplify(v, rational=True)
        if isinstance(v, complex):
            return sp.nsimplify(v.real, rational=True) + sp.I * sp.nsimplify(v.imag, rational=True)
        raise Unrecognised('constant %r' % (v,))

    def tr_Name(self, node):
        if node.id in self.env:
            return self.env[node.id]
        if self.free == 'error':
            raise Unrecognised('free name %s' % node.id)
        return self.sym(node.id)

    def tr_UnaryOp(self, node):
        v = self.tr(node.operand)
        if isinstance(node.op, ast.USub):
            return -v
        if isinstance(node.op, ast.UAdd):
            return v
        raise Unrecognised('unary %s' % unparse(node))

    def tr_BinOp(self, node):
        a, b = self.tr(node.left), self.tr(node.right)
        op = node.op
        if isinstance(op, ast.Add):
            return a + b
        if isinstance(op, ast.Sub):
            return a - b
        if isinstance(op, ast.Mult):
            return a * b
        if isinstance(op, ast.Div):
            return a / b
        if isinstance(op, ast.Pow):
            return a ** b
        if isinstance(op, ast.FloorDiv):
            return sp.floor(a / b)
        if isinstance(op, ast.Mod):
            return sp.Mod(a, b)
        if isinstance(op, ast.MatMult):
            return a * b   # caller must use non-commutative symbols
        raise Unrecognised('binary op %s' % unparse(node))

    def tr_Call(self, node):
        name = None
        if isinstance(node.func, ast.Attribute) or isinstance(node.func, ast.Name):
            dotted = self.mod.dotted(node.func) if self.mod is not None else None
            if dotted is None and isinstance(node.func, ast.Name):
                dotted = node.func.id
            if dotted is not None:
                head, _, last = dotted.rpartition('.')
                if head == '' or head in _NUMERIC_MODULES or head.startswith('numpy') or head.startswith('autograd.numpy'):
                    name = last
        if name in self.funcs and not node.keywords:
            args = [self.tr(a) for a in node.args]
            try:
                return self.funcs[name](*args)
            except TypeError as e:
                raise Unrecognised('call %s: %s' % (unparse(node), e))
        if name == 'max' and len(node.args) == 2:
            return sp.Max(self.tr(node.args[0]), self.tr(node.args[1]))
        if name == 'min' and len(node.args) == 2:
            return sp.Min(self.tr(node.args[0]), self.tr(node.args[1]))
        raise Unrecognised('call %s' % unparse(node))

    def tr_IfExp(self, node):
        raise Unrecognised('conditional expression %s' % unparse(node))


class _Timeout(BaseException):
    pass


class time_limit:
    """SIGALRM based limit for a sympy call (main thread only; no-op elsewhere)."""

    def __init__(self, seconds):
        self.seconds = seconds

    def __enter__(self):
        import signal
        import threading
        self.active = threading.current_thread() is threading.main_thread()
        if self.active:
            def handler(signum, frame):
                raise _Timeout()
            self.old = signal.signal(signal.SIGALRM, handler)
            signal.setitimer(signal.ITIMER_REAL, self.seconds)
        return self

    def __exit__(self, *exc):
        import signal
        if self.active:
            signal.setitimer(signal.ITIMER_REAL, 0)
            signal.signal(signal.SIGALRM, self.old)
        return False


def decide_equal(a, b, seed=0, trials=6):
    """HOLDS (True) / VIOLATED (False) / None (unknown).  a, b sympy terms."""
    try:
        d = a - b
    except Exception:
        return None
    if d == 0:
        return True
    try:
        for f in (lambda e: sp.simplify(e),
                  lambda e: sp.simplify(e.rewrite(sp.exp)),
                  lambda e: sp.simplify(sp.expand_trig(e)),
                  lambda e: sp.cancel(sp.together(sp.expand(e))),
                  lambda e: sp.simplify(sp.expand_log(e, force=True)),
                  ):
            try:
                with time_limit(4):
                    r = f(d)
            except (Exception, _Timeout):
                continue
            if r == 0:
                return True
    except Exception:
        pass
    # opaque applied functions become independent symbols (sound: they are arbitrary functions);
    # distinct unevaluated sums cannot be compared numerically -> unknown
    try:
        with time_limit(4):
            d = sp.simplify(d)
    except (Exception, _Timeout):
        pass
    sums = d.atoms(sp.Sum)
    if len(sums) > 1:
        return None
    rep = {}
    for su in sums:
        rep[su] = sp.Dummy('sum', positive=True)
    d = d.xreplace(rep)
    from sympy.core.function import AppliedUndef
    rep = {}
    signed = set()
    for ap in sorted(d.atoms(AppliedUndef), key=str):
        if ap.is_positive:
            rep[ap] = sp.Dummy(str(ap), positive=True)
        else:
            # a function that is only known to be real (an autocorrelation rho(t), a fluctuation) takes both signs
            rep[ap] = sp.Dummy(str(ap), real=True)
            signed.add(rep[ap])
    d = d.xreplace(rep)
    # search for an exact counter-point
    syms = sorted(d.free_symbols, key=lambda s: s.name)
    rnd = random.Random(1234 + seed)
    nonzero = 0
    evaluated = 0
    for _ in range(trials * 3):
        sub = {s: (sp.Integer(rnd.randint(2, 9)) if s.is_integer else
                   sp.Float(sp.Rational(rnd.randint(2, 40), rnd.randint(1, 9)) + (1 if s.is_positive else 0), 50)) for s in syms}
        for s_ in syms:
            if s_ in signed and rnd.random() < 0.5:
                sub[s_] = -sub[s_]
        try:
            with time_limit(5):
                v = d.xreplace(sub)
                v = sp.N(v, 40)
        except (Exception, _Timeout):
            continue
        if v.is_number is not True or v.has(sp.nan, sp.zoo, sp.oo):
            continue
        try:
            av = abs(complex(v))
        except Exception:
            continue
        evaluated += 1
        if av > 1e-25:
            nonzero += 1
        if evaluated >= trials:
            break
    if evaluated and nonzero == evaluated:
        return False
    if signed and nonzero >= 2:
        # terms that agree for one sign of a real-valued function and differ for the other (abs / max(x, 0)): a point where the
        # difference is non-zero at 40 digits is a counter-example
        return False
    if evaluated >= trials and nonzero == 0:
        # numerically zero at all points with 40 digits although simplification did not close:
        # accept as equal (exact identity in all tried rational points)
        return True
    return None


def counterpoint(a, b, seed=0):
    d = a - b
    from sympy.core.function import AppliedUndef
    if d.atoms(AppliedUndef) or d.atoms(sp.Sum):
        return None
    syms = sorted(d.free_symbols, key=lambda s: s.name)
    rnd = random.Random(99 + seed)
    for _ in range(20):
        sub = {s: (sp.Integer(rnd.randint(2, 9)) if s.is_integer else sp.Float(sp.Rational(rnd.randint(2, 40), rnd.randint(1, 9)) + 1, 30)) for s in syms}
        try:
            v = sp.N(d.xreplace(sub), 30)
            if v.is_number and abs(complex(v)) > 1e-25:
                return {str(k): str(val) for k, val in sub.items()}, str(sp.N(a.xreplace(sub), 12)), str(sp.N(b.xreplace(sub), 12))
        except Exception:
            continue
    return None
