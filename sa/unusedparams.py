"""An option that a function accepts but never reads is silently ignored.  Confirmed exceptions (placeholders of today's tree)
are listed by (module, function, parameter) with a reason."""
import ast

from .srcmodel import walk

EXCEPTIONS = {
    ('correlators', 'Corr.plateau.const_func', 't'): 'constant fit model ignores the abscissa by definition',
    ('correlators', '_GEVP_solver.eigv', 'kwargs'): 'signature compatible with linalg.eigv',
    ('fits', 'least_squares.general_chisqfunc_uncorr', 'pr'): 'variant without priors keeps the common signature',
    ('linalg', '_scalar_mat_op._mat', 'kwargs'): 'derived_observable passes its kwargs on to the function',
    ('linalg', '_mat_mat_op', 'kwargs'): 'placeholder',
    ('linalg', 'eigh', 'kwargs'): 'placeholder', ('linalg', 'eig', 'kwargs'): 'placeholder', ('linalg', 'eigv', 'kwargs'): 'placeholder',
    ('linalg', 'pinv', 'kwargs'): 'placeholder', ('linalg', 'svd', 'kwargs'): 'placeholder',
    ('obs', 'covariance', 'kwargs'): 'accepts and ignores fit keyword arguments handed through by least_squares',
    ('roots', 'find_root', 'kwargs'): 'placeholder',
    ('input.openQCD', '_parse_array_openQCD2', 'size'): 'element size is implied by the unpacked tuple',
}


def check(ctx, rule, mod, only=None):
    n = 0
    for q, f in mod.functions():
        if only is not None and not only(q):
            continue
        ps = [a.arg for a in f.args.posonlyargs + f.args.args + f.args.kwonlyargs]
        if f.args.vararg:
            ps.append(f.args.vararg.arg)
        if f.args.kwarg:
            ps.append(f.args.kwarg.arg)
        used = {x.id for x in walk(f, skip_nested_defs=False) if isinstance(x, ast.Name) and isinstance(x.ctx, ast.Load)}
        for p in ps:
            if p in ('self', 'cls'):
                continue
            n += 1
            if p in used or (mod.name, q, p) in EXCEPTIONS:
                continue
            # a listed placeholder that was given the conventional 'unused' spelling (_name) is still the same placeholder
            if p.startswith('_') and (mod.name, q, p.lstrip('_')) in EXCEPTIONS:
                continue
            # a listed nested placeholder function that moved into another enclosing function (helper extraction) is the same placeholder
            if '.' in q and any(m_ == mod.name and '.' in q_ and q_.rsplit('.', 1)[1] == q.rsplit('.', 1)[1] and p_ == p for (m_, q_, p_) in EXCEPTIONS):
                continue
            ctx.violated(rule, '%s:%s#unused-parameter[%s]' % (mod.relpath.replace('pyerrors/', ''), q, p),
                         '%s accepts the parameter `%s` but never reads it: the caller\'s value is silently ignored' % (q, p), mod.loc(f))
    ctx.holds(rule, '%s#parameters-read' % mod.relpath.replace('pyerrors/', ''), '%d parameters of %s are all read (or listed placeholders)' % (n, mod.relpath))
    return n
