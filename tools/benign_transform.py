#!/usr/bin/env python3
"""Behaviour-preserving whole-package rewrites used to measure the false-alarm side of the checks (metamorphic test of the
checker): every check must stay silent (exit 0) on each rewritten copy.

    benign_transform.py <mode> <src_repo> <dst_dir>

modes:  unparse   every module re-emitted by ast.unparse (comments, layout, parentheses, string quotes normalised)
        rename    additionally every function-local variable  x  is renamed  x_  (parameters, globals, attributes, names that a
                  nested scope rebinds are left alone)
        messages  every string literal inside a raise / warnings.warn / print call gets a suffix (reworded messages)
        docstrings  all docstrings removed
        reorder   consecutive runs of module-level function definitions are reversed
        temps     (without renaming; `both` = rename + temps) the right-hand side of every plain  `name = <call or binop>`  assignment in a function body goes
                  through a fresh temporary   (_tN = rhs; name = _tN)
"""
import ast
import os
import shutil
import sys


def scopes_binding(node):
    """names bound in nested scopes (functions, lambdas, classes, comprehensions) below node, excluding node itself"""
    out = set()
    for n in ast.walk(node):
        if n is node:
            continue
        if isinstance(n, (ast.FunctionDef, ast.AsyncFunctionDef, ast.Lambda)):
            a = n.args
            for x in a.posonlyargs + a.args + a.kwonlyargs:
                out.add(x.arg)
            if a.vararg:
                out.add(a.vararg.arg)
            if a.kwarg:
                out.add(a.kwarg.arg)
            if not isinstance(n, ast.Lambda):
                out.add(n.name)
                for m in ast.walk(n):
                    if isinstance(m, ast.Name) and isinstance(m.ctx, (ast.Store, ast.Del)):
                        out.add(m.id)
        elif isinstance(n, ast.ClassDef):
            out.add(n.name)
            for m in ast.walk(n):
                if isinstance(m, ast.Name) and isinstance(m.ctx, ast.Store):
                    out.add(m.id)
        elif isinstance(n, (ast.ListComp, ast.SetComp, ast.DictComp, ast.GeneratorExp)):
            for g in n.generators:
                for m in ast.walk(g.target):
                    if isinstance(m, ast.Name):
                        out.add(m.id)
    return out


def own_statements(func):
    """nodes of the function's own scope (not descending into nested function / class bodies, but into comprehensions)"""
    stack = list(func.body)
    while stack:
        n = stack.pop()
        yield n
        if isinstance(n, (ast.FunctionDef, ast.AsyncFunctionDef, ast.ClassDef, ast.Lambda)):
            continue
        stack.extend(ast.iter_child_nodes(n))


def rename_locals(tree):
    count = 0
    top = [n for n in ast.walk(tree) if isinstance(n, (ast.FunctionDef, ast.AsyncFunctionDef))]
    # only outermost functions (methods and module functions); nested ones are handled as part of their parent
    parents = {}
    for n in ast.walk(tree):
        for c in ast.iter_child_nodes(n):
            parents[c] = n

    def inside_function(n):
        p = parents.get(n)
        while p is not None:
            if isinstance(p, (ast.FunctionDef, ast.AsyncFunctionDef, ast.Lambda)):
                return True
            p = parents.get(p)
        return False
    for f in top:
        if inside_function(f):
            continue
        params = set()
        a = f.args
        for x in a.posonlyargs + a.args + a.kwonlyargs:
            params.add(x.arg)
        if a.vararg:
            params.add(a.vararg.arg)
        if a.kwarg:
            params.add(a.kwarg.arg)
        declared = set()
        uses_locals = False
        for n in ast.walk(f):
            if isinstance(n, (ast.Global, ast.Nonlocal)):
                declared.update(n.names)
            if isinstance(n, ast.Call) and isinstance(n.func, ast.Name) and n.func.id in ('locals', 'vars', 'eval', 'exec'):
                uses_locals = True
        if uses_locals:
            continue
        bound = set()
        for n in own_statements(f):
            if isinstance(n, ast.Name) and isinstance(n.ctx, (ast.Store, ast.Del)):
                bound.add(n.id)
            elif isinstance(n, ast.ExceptHandler) and n.name:
                declared.add(n.name)
            elif isinstance(n, (ast.Import, ast.ImportFrom)):
                for al in n.names:
                    declared.add((al.asname or al.name).split('.')[0])
        # comprehension targets inside the own scope are bound in their own scope: they are in scopes_binding
        nested = scopes_binding(f)
        # names bound by own-scope comprehension targets were collected as 'bound' too (ctx Store); remove those that nested scopes bind
        cand = bound - params - declared - nested
        if not cand:
            continue
        for n in ast.walk(f):
            if isinstance(n, ast.Name) and n.id in cand:
                n.id = n.id + '_'
                count += 1
    return count


class Temps(ast.NodeTransformer):
    def __init__(self):
        self.k = 0
        self.depth = 0

    def visit_FunctionDef(self, node):
        self.depth += 1
        self.generic_visit(node)
        self.depth -= 1
        return node

    def visit_Assign(self, node):
        if self.depth and len(node.targets) == 1 and isinstance(node.targets[0], ast.Name) and isinstance(node.value, (ast.Call, ast.BinOp)):
            self.k += 1
            tmp = '_t%d' % self.k
            a = ast.Assign(targets=[ast.Name(id=tmp, ctx=ast.Store())], value=node.value, lineno=node.lineno)
            b = ast.Assign(targets=node.targets, value=ast.Name(id=tmp, ctx=ast.Load()), lineno=node.lineno)
            return [ast.fix_missing_locations(ast.copy_location(a, node)), ast.fix_missing_locations(ast.copy_location(b, node))]
        return node


class Messages(ast.NodeTransformer):
    def __init__(self):
        self.k = 0
        self.inside = 0

    def _mark(self, node):
        self.inside += 1
        self.generic_visit(node)
        self.inside -= 1
        return node

    def visit_Raise(self, node):
        return self._mark(node)

    def visit_Call(self, node):
        nm = node.func.attr if isinstance(node.func, ast.Attribute) else (node.func.id if isinstance(node.func, ast.Name) else '')
        if nm in ('warn', 'print'):
            return self._mark(node)
        self.generic_visit(node)
        return node

    def visit_Constant(self, node):
        if self.inside and isinstance(node.value, str) and len(node.value) > 3 and '%' not in node.value and '{' not in node.value:
            self.k += 1
            return ast.copy_location(ast.Constant(value=node.value + ' (reworded)'), node)
        return node

    def visit_JoinedStr(self, node):
        return node


def strip_docstrings(tree):
    n = 0
    for node in ast.walk(tree):
        if isinstance(node, (ast.FunctionDef, ast.AsyncFunctionDef, ast.ClassDef, ast.Module)) and node.body:
            b = node.body[0]
            if isinstance(b, ast.Expr) and isinstance(b.value, ast.Constant) and isinstance(b.value.value, str):
                if len(node.body) == 1:
                    node.body[0] = ast.copy_location(ast.Pass(), b)
                else:
                    del node.body[0]
                n += 1
    return n


def reorder_functions(tree):
    n = 0
    body = tree.body
    i = 0
    while i < len(body):
        j = i
        while j < len(body) and isinstance(body[j], ast.FunctionDef) and not body[j].decorator_list:
            j += 1
        if j - i >= 2:
            body[i:j] = body[i:j][::-1]
            n += j - i
        i = max(j, i + 1)
    return n


def main():
    mode, src, dst = sys.argv[1:4]
    if os.path.exists(dst):
        shutil.rmtree(dst)
    shutil.copytree(os.path.join(src, 'pyerrors'), os.path.join(dst, 'pyerrors'))
    for extra in ('tests', 'examples', 'setup.py', 'pyproject.toml', 'README.md', 'conftest.py', 'pytest.ini', 'setup.cfg'):
        p = os.path.join(src, extra)
        if os.path.isdir(p):
            shutil.copytree(p, os.path.join(dst, extra))
        elif os.path.exists(p):
            shutil.copy(p, dst)
    n_files = n_ren = n_tmp = 0
    for root, _, files in os.walk(os.path.join(dst, 'pyerrors')):
        for fn in files:
            if not fn.endswith('.py'):
                continue
            p = os.path.join(root, fn)
            tree = ast.parse(open(p, encoding='utf-8').read())
            if mode in ('rename', 'both'):
                n_ren += rename_locals(tree)
            if mode == 'messages':
                t = Messages()
                tree = t.visit(tree)
                n_tmp += t.k
            if mode == 'docstrings':
                n_tmp += strip_docstrings(tree)
            if mode == 'reorder':
                n_tmp += reorder_functions(tree)
            if mode in ('temps', 'both'):
                t = Temps()
                tree = t.visit(tree)
                n_tmp += t.k
            open(p, 'w', encoding='utf-8').write(ast.unparse(ast.fix_missing_locations(tree)) + '\n')
            n_files += 1
    print('%s: %d files, %d renamed name occurrences, %d temporaries' % (mode, n_files, n_ren, n_tmp))


if __name__ == '__main__':
    main()
