#!/usr/bin/env python3-vt
"""Regenerate MANIFEST.json from the rule modules (LEVEL / LEVEL_TEXT / LEVEL_NOTE / TECHNIQUE)."""
import importlib
import json
import os
import sys

VERIF = os.path.dirname(os.path.dirname(os.path.abspath(__file__)))
sys.path.insert(0, VERIF)
props = [json.loads(l) for l in open(os.path.join(VERIF, 'properties.jsonl'))]
PENDING = {}
checks, na = [], []
for p in props:
    pid = p['id']
    path = os.path.join(VERIF, 'sa', 'rules', pid + '.py')
    if not os.path.exists(path):
        na.append({'property_id': pid, 'reason': PENDING.get(pid, 'check not built yet (work in progress; DESIGN.md section 4 lists the clauses that will be decided)')})
        continue
    m = importlib.import_module('sa.rules.' + pid)
    if getattr(m, 'NOT_APPLICABLE', None):
        na.append({'property_id': pid, 'reason': m.NOT_APPLICABLE})
        continue
    checks.append({
        'property_id': pid,
        'quick_cmd': './check %s --tier quick' % pid,
        'thorough_cmd': './check %s --tier thorough' % pid,
        'evidence_file': 'evidence/%s.json' % pid,
        'replay_cmd_template': './check %s --replay {path}' % pid,
        'engine': 'sa',
        'level_claimed': {'category': m.LEVEL, 'text': getattr(m, 'LEVEL_TEXT', m.EXPLANATION), 'design_ref': 'DESIGN.md section 4, ' + pid},
        'level_note': getattr(m, 'LEVEL_NOTE', 'trusted: CPython ast, sympy, the rule and atom tables in sa/rules/%s.py; not decided: see the not_decided list in the evidence file' % pid),
        'technique': getattr(m, 'TECHNIQUE', 'static analysis of the parsed source (ast): repository-specific rules'),
    })
man = {
    'version': 1,
    'setup_cmd': 'python3-vt -c "import sympy, networkx" && chmod +x ./check',
    'hooks': {'guard': 'PYERRORS_VERIF', 'enable': 'none: static analysis reads the sources of /repo, no instrumentation is compiled in',
              'baseline_off_cmd': 'cd /repo && /venv/bin/python -m pytest -ra -q -p no:cacheprovider --timeout=900 --continue-on-collection-errors',
              'source_commits': [], 'add_only': True},
    'engines': [{'name': 'sa', 'path': 'sa/', 'serves_properties': [c['property_id'] for c in checks],
                 'kind_free_text': 'static analysis: python ast based source model, sympy expression comparison, guard/effect/dataflow rules specific to pyerrors; nothing of /repo is imported or executed'}],
    'checks': checks,
    'not_applicable': na,
    'notes': 'All checks parse $VERIF_REPO (default /repo) on every run. Exit 0 holds / 1 VIOLATION / 2 ANALYSIS-ERROR (shape not recognised, never an accusation). Known findings: known_findings.json.',
}
json.dump(man, open(os.path.join(VERIF, 'MANIFEST.json'), 'w'), indent=1)
print('checks:', [c['property_id'] for c in checks], 'n/a:', [n['property_id'] for n in na])
