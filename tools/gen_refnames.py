#!/usr/bin/env python3
"""Regenerate sa/refnames.json (structure hashes + local-name occurrence sequences of every outermost function) from the tree the
rule instances were confirmed on.  Run only when the rules have been re-confirmed against a new reference tree."""
import json
import os
import sys
sys.path.insert(0, os.path.join(os.path.dirname(os.path.abspath(__file__)), '..'))
from sa import normalise  # noqa: E402

repo = sys.argv[1] if len(sys.argv) > 1 else os.environ.get('VERIF_REPO', '/repo')
ref = normalise.build_reference(repo)
out = os.path.join(os.path.dirname(os.path.abspath(__file__)), '..', 'sa', 'refnames.json')
with open(out, 'w') as fh:
    json.dump(ref, fh, separators=(',', ':'), sort_keys=True)
print('functions:', sum(len(v) for v in ref.values()), 'bytes:', os.path.getsize(out))
