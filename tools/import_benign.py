#!/usr/bin/env python3
"""Confirm a behaviour-preserving change produced by a sub-agent and keep it under /verif/benign/<pid>-<X>/.

usage: import_benign.py <pid> <E|F|G> [worktree]     (default worktree /tmp/wt3_<pid>)
Confirms in the worktree: the existing suite gives the same 250 passes / 11 known failures with the patch, and the author's
equivalence script prints the same output on the clean tree and with the patch.  The worktree is left clean.
These changes are the false-alarm corpus: every check of every property must stay at exit 0 on each of them
(tools/run_benign.py).
"""
import json
import os
import re
import shutil
import subprocess
import sys

VERIF = os.path.dirname(os.path.dirname(os.path.abspath(__file__)))
sys.path.insert(0, os.path.join(VERIF, 'tools'))
from import_seed import BASE_FAIL, sh  # noqa: E402


def main():
    pid, letter = sys.argv[1], sys.argv[2]
    wt = sys.argv[3] if len(sys.argv) > 3 else '/tmp/wt3_' + pid
    sd = os.path.join(wt, '_seed')
    diff, eq = os.path.join(sd, letter + '.diff'), os.path.join(sd, letter + '_equiv.py')
    if not os.path.exists(diff):
        print('missing', diff)
        return 2
    env = {'PYTHONPATH': wt, 'PYTHONHASHSEED': '0', 'OMP_NUM_THREADS': '1', 'OPENBLAS_NUM_THREADS': '1', 'MKL_NUM_THREADS': '1'}
    sh('git checkout -- pyerrors', wt)
    rc_c, out_c = sh('/venv/bin/python %s 2>/dev/null' % eq, wt, env) if os.path.exists(eq) else (None, '')
    rc, out = sh('git apply %s' % diff, wt)
    if rc != 0:
        print('patch does not apply:', out)
        return 2
    try:
        rc_m, out_m = sh('/venv/bin/python %s 2>/dev/null' % eq, wt, env) if os.path.exists(eq) else (None, '')
        rc_t, out_t = sh('/venv/bin/python -m pytest -q -p no:cacheprovider --timeout=900 tests 2>&1 | tail -25', wt, env)
    finally:
        sh('git checkout -- pyerrors', wt)
        sh('find . -name __pycache__ -type d -prune -exec rm -rf {} +', wt)
    failed = set(re.findall(r'FAILED tests/\w+\.py::(\w+)', out_t))
    m = re.search(r'(\d+) failed, (\d+) passed', out_t)
    summary = m.group(0) if m else out_t[-200:]
    ok_suite = failed == BASE_FAIL and m is not None and m.group(2) == '250'
    ok_eq = rc_c is None or (rc_c == 0 and rc_m == 0 and out_c == out_m)
    print('%s-%s suite: %s, new failures: %s, equivalence script: %s' % (pid, letter, summary, sorted(failed - BASE_FAIL),
                                                                       'absent' if rc_c is None else ('identical output' if ok_eq else 'DIFFERS (rc %s/%s)' % (rc_c, rc_m))))
    if not (ok_suite and ok_eq):
        print('NOT CONFIRMED')
        return 1
    dst = os.path.join(VERIF, 'benign', '%s-%s' % (pid, letter))
    os.makedirs(dst, exist_ok=True)
    shutil.copy(diff, os.path.join(dst, 'patch.diff'))
    if os.path.exists(eq):
        shutil.copy(eq, os.path.join(dst, 'equiv.py'))
    if os.path.exists(os.path.join(sd, 'notes.md')):
        shutil.copy(os.path.join(sd, 'notes.md'), os.path.join(dst, 'notes_from_author.md'))
    meta = {
        'property': pid,
        'kind': 'behaviour-preserving change (false-alarm corpus)',
        'origin': 'independent sub-agent given only the text of the property and a scratch worktree; asked for a refactoring that keeps the property exactly',
        'confirmed': {
            'existing_suite_with_change': summary + ' (failures identical to the 11 baseline failures)',
            'equivalence_script': 'absent' if rc_c is None else 'identical output on the clean tree and with the change (%d bytes)' % len(out_c),
        },
    }
    with open(os.path.join(dst, 'meta.json'), 'w') as fh:
        json.dump(meta, fh, indent=1)
    print('kept as', dst)
    return 0


if __name__ == '__main__':
    sys.exit(main())
