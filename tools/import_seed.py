#!/usr/bin/env python3
"""Confirm a seeded change produced by a sub-agent in its scratch worktree and keep it under /verif/seeded/<pid>-<X>/.

usage: import_seed.py <pid> <A|B> [worktree]     (default worktree /tmp/wt_<pid>)
Confirms in the worktree: demo passes on the clean tree, fails with the patch, the existing suite still passes with the patch
(same 250 passes / 11 known failures as the baseline).  The worktree is left clean.
"""
import json
import os
import re
import shutil
import subprocess
import sys

VERIF = os.path.dirname(os.path.dirname(os.path.abspath(__file__)))
BASE_FAIL = {'test_combined_fit_no_autograd', 'test_fit_no_autograd', 'test_function_overloading', 'test_nan_df_export_import', 'test_null_first_line_df_export_import',
             'test_null_first_line_df_gzsql_export_import', 'test_null_first_line_df_sql_export_import', 'test_null_second_line_df_export_import',
             'test_null_second_line_df_gzsql_export_import', 'test_null_second_line_df_sql_export_import', 'test_root_no_autograd'}


def sh(cmd, cwd, env=None, timeout=1200):
    e = dict(os.environ)
    e.update(env or {})
    p = subprocess.run(cmd, cwd=cwd, shell=True, capture_output=True, text=True, env=e, timeout=timeout)
    return p.returncode, p.stdout + p.stderr


def main():
    pid, letter = sys.argv[1], sys.argv[2]
    wt = sys.argv[3] if len(sys.argv) > 3 else '/tmp/wt_' + pid
    sd = os.path.join(wt, '_seed')
    diff, demo = os.path.join(sd, letter + '.diff'), os.path.join(sd, letter + '_demo.py')
    if not (os.path.exists(diff) and os.path.exists(demo)):
        print('missing files in', sd)
        return 2
    env = {'PYTHONPATH': wt}
    sh('git checkout -- pyerrors', wt)
    rc_clean, out_clean = sh('/venv/bin/python %s' % demo, wt, env)
    rc, out = sh('git apply %s' % diff, wt)
    if rc != 0:
        print('patch does not apply:', out)
        return 2
    try:
        rc_mut, out_mut = sh('/venv/bin/python %s' % demo, wt, env)
        rc_cmp, out_cmp = sh('/venv/bin/python -m compileall -q pyerrors', wt, env)
        rc_t, out_t = sh('/venv/bin/python -m pytest -q -p no:cacheprovider --timeout=900 tests 2>&1 | tail -25', wt, env)
    finally:
        sh('git checkout -- pyerrors', wt)
        sh('find . -name __pycache__ -type d -prune -exec rm -rf {} +', wt)
    failed = set(re.findall(r'FAILED tests/\w+\.py::(\w+)', out_t))
    m = re.search(r'(\d+) failed, (\d+) passed', out_t)
    summary = m.group(0) if m else out_t[-200:]
    ok_demo = rc_clean == 0 and rc_mut != 0
    ok_suite = failed == BASE_FAIL and m is not None and m.group(2) == '250'
    print('%s-%s demo clean rc=%d, with change rc=%d, suite: %s, new failures: %s' % (pid, letter, rc_clean, rc_mut, summary, sorted(failed - BASE_FAIL)))
    if not (ok_demo and ok_suite and rc_cmp == 0):
        print('NOT CONFIRMED')
        if rc_clean != 0:
            print(out_clean[-600:])
        return 1
    dst = os.path.join(VERIF, 'seeded', '%s-%s' % (pid, letter))
    os.makedirs(dst, exist_ok=True)
    shutil.copy(diff, os.path.join(dst, 'patch.diff'))
    shutil.copy(demo, os.path.join(dst, 'demo.py'))
    notes = ''
    if os.path.exists(os.path.join(sd, 'notes.md')):
        notes = open(os.path.join(sd, 'notes.md')).read()
        with open(os.path.join(dst, 'notes_from_author.md'), 'w') as fh:
            fh.write(notes)
    meta = {
        'property': pid,
        'origin': 'independent sub-agent given only the text of the property and a scratch worktree (/tmp/wt_%s)' % pid,
        'needs_to_manifest': '(see notes_from_author.md)',
        'confirmed': {
            'demo_on_clean_tree': 'exit %d' % rc_clean,
            'demo_with_change': 'exit %d: %s' % (rc_mut, out_mut.strip().splitlines()[-1][:200] if out_mut.strip() else ''),
            'existing_suite_with_change': summary + ' (failures identical to the 11 baseline failures)',
            'commands': ['PYTHONPATH=<worktree> /venv/bin/python demo.py', 'git apply patch.diff', 'PYTHONPATH=<worktree> /venv/bin/python -m pytest -q -p no:cacheprovider tests'],
        },
    }
    json.dump(meta, open(os.path.join(dst, 'meta.json'), 'w'), indent=1)
    print('kept as', dst)
    return 0


if __name__ == '__main__':
    sys.exit(main())
