#!/usr/bin/env python3
"""Run ALL twenty checks against every stored behaviour-preserving change (benign/<id>/patch.diff) on a scratch copy.
A check that leaves exit 0 on one of them is a false alarm.   usage: run_benign.py [names...] [--verbose]"""
import os
import shutil
import subprocess
import sys
import tempfile
from concurrent.futures import ThreadPoolExecutor

VERIF = os.path.dirname(os.path.dirname(os.path.abspath(__file__)))
REPO = os.environ.get('VERIF_REPO', '/repo')
PIDS = ['C%02d' % i for i in range(1, 21)]


def one(name):
    d = os.path.join(VERIF, 'benign', name)
    tmp = tempfile.mkdtemp(prefix='pyerr_benign_')
    try:
        shutil.copytree(os.path.join(REPO, 'pyerrors'), os.path.join(tmp, 'pyerrors'), ignore=shutil.ignore_patterns('__pycache__'))
        if os.path.isdir(os.path.join(REPO, 'examples')):
            os.makedirs(os.path.join(tmp, 'examples'))
            for f in os.listdir(os.path.join(REPO, 'examples')):
                if f.endswith('.json'):
                    shutil.copy(os.path.join(REPO, 'examples', f), os.path.join(tmp, 'examples', f))
        p = subprocess.run(['patch', '-p1', '-s', '-i', os.path.join(d, 'patch.diff')], cwd=tmp, capture_output=True, text=True)
        if p.returncode != 0:
            return name, {'*': ('patch-failed', p.stdout + p.stderr)}
        res = {}
        env = dict(os.environ, VERIF_REPO=tmp, VERIF_EVIDENCE_DIR=os.path.join(tmp, 'evidence'), VERIF_OUT_DIR=os.path.join(tmp, 'out'), VERIF_TIER='quick')
        for pid in PIDS:
            q = subprocess.run([os.path.join(VERIF, 'check'), pid], env=env, capture_output=True, text=True, timeout=300)
            if q.returncode != 0:
                lines = [l for l in (q.stdout + q.stderr).splitlines() if l.startswith('  C') or 'ANALYSIS-ERROR' in l]
                res[pid] = (q.returncode, '\n'.join(lines[:6]))
        return name, res
    finally:
        shutil.rmtree(tmp, ignore_errors=True)


def main():
    args = [a for a in sys.argv[1:] if not a.startswith('--')]
    names = args or sorted(os.listdir(os.path.join(VERIF, 'benign')))
    bad = 0
    with ThreadPoolExecutor(max_workers=int(os.environ.get('VERIF_JOBS', '8'))) as ex:
        for name, res in ex.map(one, names):
            if not res:
                print('%-10s silent (20/20 exit 0)' % name)
            else:
                bad += 1
                for pid, (rc, txt) in sorted(res.items()):
                    print('%-10s %s exit %s' % (name, pid, rc))
                    print('      ' + txt.replace('\n', '\n      ')[:1500])
    print('benign changes: %d, with a false alarm: %d' % (len(names), bad))
    return 1 if bad else 0


if __name__ == '__main__':
    sys.exit(main())
