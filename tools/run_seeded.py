#!/usr/bin/env python3-vt
"""Run the registered checks against the seeded changes kept under /verif/seeded/<name>/ (patch.diff, demo, meta.json).

For every seeded change a scratch copy of $VERIF_REPO (default /repo) is made outside /repo and /verif, the patch is applied there,
the owning property's check (and, with --all, every check) is run with VERIF_REPO pointing at the copy, and the copy is removed.
Nothing in /repo is touched.  Prints one line per seed:  <seed> <property> detected|MISSED|exit2  [other properties that also fire]
"""
import concurrent.futures as cf
import json
import os
import shutil
import subprocess
import sys
import tempfile

VERIF = os.path.dirname(os.path.dirname(os.path.abspath(__file__)))
REPO = os.environ.get('VERIF_REPO', '/repo')
ALL = ['C%02d' % i for i in range(1, 21)]


def run_seed(name, all_checks=False):
    d = os.path.join(VERIF, 'seeded', name)
    meta = json.load(open(os.path.join(d, 'meta.json')))
    pid = meta['property']
    tmp = tempfile.mkdtemp(prefix='pyerr_seed_')
    try:
        shutil.copytree(os.path.join(REPO, 'pyerrors'), os.path.join(tmp, 'pyerrors'), ignore=shutil.ignore_patterns('__pycache__'))
        os.makedirs(os.path.join(tmp, 'examples'))
        for f in os.listdir(os.path.join(REPO, 'examples')):
            if f.endswith('.json'):
                shutil.copy(os.path.join(REPO, 'examples', f), os.path.join(tmp, 'examples', f))
        p = subprocess.run(['patch', '-p1', '-s', '-i', os.path.join(d, 'patch.diff')], cwd=tmp, capture_output=True, text=True)
        if p.returncode != 0:
            return name, pid, 'PATCH-FAILED', p.stdout + p.stderr, {}
        res = {}
        for c in (ALL if all_checks else [pid]):
            env = dict(os.environ, VERIF_REPO=tmp, VERIF_EVIDENCE_DIR=os.path.join(tmp, 'ev'), VERIF_OUT_DIR=os.path.join(tmp, 'out'))
            q = subprocess.run([os.path.join(VERIF, 'check'), c], env=env, capture_output=True, text=True, timeout=300)
            lines = [l for l in q.stdout.splitlines() if l.startswith('  C') or l.startswith('ANALYSIS-ERROR')]
            res[c] = (q.returncode, lines)
        rc = res[pid][0]
        status = 'detected' if rc == 1 else ('exit2' if rc == 2 else 'MISSED')
        return name, pid, status, '\n'.join(res[pid][1][:4]), {c: r[0] for c, r in res.items() if c != pid and r[0] != 0}
    finally:
        shutil.rmtree(tmp, ignore_errors=True)


def main():
    args = [a for a in sys.argv[1:] if not a.startswith('--')]
    all_checks = '--all' in sys.argv
    names = args or sorted(n for n in os.listdir(os.path.join(VERIF, 'seeded')) if os.path.exists(os.path.join(VERIF, 'seeded', n, 'meta.json')))
    counts = {}
    with cf.ThreadPoolExecutor(max_workers=8) as ex:
        for name, pid, status, detail, others in ex.map(lambda n: run_seed(n, all_checks), names):
            counts[status] = counts.get(status, 0) + 1
            print('%-28s %s %-9s %s' % (name, pid, status, ('also: %s' % others) if others else ''))
            if '--verbose' in sys.argv or status != 'detected':
                for l in detail.splitlines():
                    print('      ' + l[:230])
    print('seeded changes: %d  %s' % (len(names), counts))


if __name__ == '__main__':
    main()
