#!/usr/bin/env python3
"""Debug aid: apply a stored benign patch to a scratch copy, run the normalisation pre-pass and show, per changed function,
the notes and the remaining difference to the reference tree (/repo).   usage: show_restore.py <benign-name> [--full]"""
import ast
import difflib
import os
import shutil
import subprocess
import sys
import tempfile
sys.path.insert(0, os.path.join(os.path.dirname(os.path.abspath(__file__)), '..'))
from sa import normalise  # noqa: E402

name = sys.argv[1]
kind = 'seeded' if ('--seeded' in sys.argv or not os.path.isdir('/verif/benign/' + name)) else 'benign'
tmp = tempfile.mkdtemp(prefix='pyerr_show_')
try:
    shutil.copytree('/repo/pyerrors', tmp + '/pyerrors')
    subprocess.run(['patch', '-p1', '-s', '-i', '/verif/%s/%s/patch.diff' % (kind, name)], cwd=tmp, check=True)
    changed = subprocess.run('grep "^+++ b/" /verif/%s/%s/patch.diff | cut -c7-' % (kind, name), shell=True, capture_output=True, text=True).stdout.split()
    for rel in changed:
        os.environ['VERIF_NORM_CACHE'] = os.path.join(tmp, '.cache')
        cur, notes = normalise.parse_normalised(open(os.path.join(tmp, rel)).read(), os.path.join(tmp, rel), rel)
        ref = ast.parse(open(os.path.join('/repo', rel)).read())
        print('==', rel)
        for n in notes:
            print('   note:', n)
        rf = dict(normalise.outer_functions(ref))
        for q, f in normalise.outer_functions(cur):
            if q not in rf:
                print('   new function', q)
                continue
            a = ast.unparse(rf[q]).splitlines()
            b = ast.unparse(f).splitlines()
            if a != b:
                print('   -- remaining difference in', q)
                for l in difflib.unified_diff(a, b, lineterm='', n=0 if '--full' not in sys.argv else 3):
                    if not l.startswith(('---', '+++')):
                        print('      ' + l[:220])
finally:
    shutil.rmtree(tmp, ignore_errors=True)
